------------------------------ MODULE Context ------------------------------
(* The Context / Canvas machine of tdewolff/canvas (canvas.go): style, view, coordinate view,   *)
(* coordinate system, Push/Pop stack, z-index layers, Canvas.Transform/Clip/Fit and RenderTo.   *)
(* One action per public call.  All matrices are integer (rotations by multiples of 90 degrees, *)
(* integer scales/shears/translations) so every expected render event is exact.                 *)
(* Property C15: a draw at (x,y) is recorded with matrix                                        *)
(*     CoordSystemView * View * Translate(CoordView.(x,y))                                      *)
(* and a snapshot of the style; Push/Pop restore exactly; RenderTo replays in ascending z       *)
(* then drawing order; after Fit(margin) the content box is [margin,W-margin]x[margin,H-margin].*)
EXTENDS Mat, TLC, Json, FiniteSets

CONSTANTS MaxLen,       \* maximal history length
          EmitAt,       \* emit scenarios (PrintT) for states with Len(hist) = EmitAt ; 0 = never
          W0, H0,       \* initial canvas size
          Profile       \* "small" | "full": size of the call alphabet

VARIABLES st,      \* current style
          view, cview, csys,
          stack,   \* sequence of saved [st, view, cview, csys]
          z,       \* current z-index of the canvas
          layers,  \* recorded layers in drawing order: [z, kind, m, st, step]
          W, H,    \* canvas size (changes with Clip / Fit)
          hist     \* call history (scenario)
vars == <<st, view, cview, csys, stack, z, layers, W, H, hist>>

\* ---- style -----------------------------------------------------------------------------------
Fills   == {"none", "black", "red", "redhalf"}
Strokes == {"none", "blue", "bluehalf"}
Widths  == {0, 2, 4}
Dashes  == {0, 1, 2}          \* 0: solid, 1: [2 1] offset 0, 2: [3 1 1 1] offset 1  (canonical already)
DefaultStyle == [fill |-> "black", stroke |-> "none", width |-> 1, cap |-> 0, join |-> 0, dash |-> 0, rule |-> 0]
HasFill(s)   == s.fill # "none"
HasStroke(s) == s.stroke # "none" /\ s.width > 0

\* ---- the drawn objects ------------------------------------------------------------------------
\* path: the asymmetric triangle (0,0) (4,0) (4,3); text: an opaque object; image: 2 x 3 pixels at 1 px/mm
TriPts == <<<<0,0>>, <<4,0>>, <<4,3>>>>
ImgW == 2
ImgH == 3

CSV(cs, w, h) == CASE cs = 0 -> MId
                   [] cs = 1 -> MRefXAbout2(w)
                   [] cs = 2 -> MMul(MRefXAbout2(w), MRefYAbout2(h))
                   [] cs = 3 -> MRefYAbout2(h)

DrawMatrix(x, y) == LET c == MDot(cview, <<x, y>>)
                    IN MMul(MMul(CSV(csys, W, H), view), MTr(c[1], c[2]))
TextMatrix(x, y) == LET m0 == DrawMatrix(x, y)
                        m1 == IF csys \in {2,3} THEN MMul(m0, MSc(1,-1)) ELSE m0
                    IN IF csys \in {1,2} THEN MMul(m1, MSc(-1,1)) ELSE m1
\* an image drawn at 0.5 px/mm: every pixel is 2 mm wide; the un-mirroring in the flipped systems is about half the PIXEL size
ImageMatrixHalf(x, y) == LET m0 == MMul(DrawMatrix(x, y), MSc(2,2))
                             m1 == IF csys \in {2,3} THEN MMul(m0, MRefYAbout2(ImgH)) ELSE m0
                         IN IF csys \in {1,2} THEN MMul(m1, MRefXAbout2(ImgW)) ELSE m1
ImageMatrix(x, y) == LET m0 == DrawMatrix(x, y)     \* resolution 1 px/mm
                         m1 == IF csys \in {2,3} THEN MMul(m0, MRefYAbout2(ImgH)) ELSE m0
                     IN IF csys \in {1,2} THEN MMul(m1, MRefXAbout2(ImgW)) ELSE m1

\* FitImage(img 4 x 6 px, rect (x,y)-(x+8,y+4), ImageCover): the image is cropped to 4 x 2 px (two rows off the top and the
\* bottom) and scaled by 2 onto the rectangle; FitImage(.., rect (x,y)-(x+8,y+12), ImageFill): scaled by 2, no crop. The
\* image keeps its upright orientation in flipped systems: it is mirrored about the size of the image that is drawn.
FitW == 4
FitMatrix(x, y, h) == LET m0 == MMul(DrawMatrix(x, y), MSc(2, 2))
                          m1 == IF csys \in {2,3} THEN MMul(m0, MRefYAbout2(h)) ELSE m0
                      IN IF csys \in {1,2} THEN MMul(m1, MRefXAbout2(FitW)) ELSE m1

\* ---- call alphabet ----------------------------------------------------------------------------
Views == IF Profile = "small" THEN {MTr(3,1), MSc(2,2), MRot90(1)}
         ELSE {MTr(3,1), MSc(2,2), MRot90(1), MSh(1,0), MSc(-1,1), MTr(-2,5)}
Pos   == IF Profile = "full" THEN {<<0,0>>, <<2,1>>, <<-1,3>>} ELSE {<<0,0>>, <<2,1>>}
Call(op, a) == [op |-> op, a |-> a]

\* Profiles: "small"/"full" = broad alphabets (shallow exhaustive / deep random); "stack", "zorder", "canvas" =
\* narrow alphabets around one mechanism so that exhaustive search reaches depth 6-7 (nested Push/Pop, z-index
\* interleavings, Clip/Fit followed by draws in flipped coordinate systems).
ViewCalls ==
  CASE Profile = "stack"  -> {Call("Translate", <<3,1>>)}
    [] Profile = "zorder" -> {}
    [] Profile = "canvas" -> {Call("Rotate", <<1>>)}
    [] OTHER ->
     {Call("Translate", p) : p \in {<<3,1>>, <<-2,5>>}}
  \cup {Call("Rotate", <<k>>) : k \in (IF Profile = "small" THEN {1} ELSE {1,2,3})}
  \cup {Call("Scale", p) : p \in {<<2,2>>, <<2,1>>, <<-1,1>>}}
  \cup {Call("ReflectX", <<>>), Call("ReflectY", <<>>), Call("ResetView", <<>>)}
  \cup {Call("RotateAbout", <<1,2,1>>), Call("ReflectXAbout", <<3>>), Call("ReflectYAbout", <<2>>)}
  \cup (IF Profile = "small" THEN {} ELSE
         {Call("Shear", <<1,0>>), Call("Shear", <<0,2>>), Call("ScaleAbout", <<2,3,1,1>>), Call("ShearAbout", <<1,2,2,0>>)}
         \cup {Call("SetView", m) : m \in Views} \cup {Call("ComposeView", m) : m \in Views})
ViewMatrix(c) ==
  CASE c.op = "Translate"     -> MTr(c.a[1], c.a[2])
    [] c.op = "Rotate"        -> MRot90(c.a[1])
    [] c.op = "Scale"         -> MSc(c.a[1], c.a[2])
    [] c.op = "Shear"         -> MSh(c.a[1], c.a[2])
    [] c.op = "ReflectX"      -> MSc(-1, 1)
    [] c.op = "ReflectY"      -> MSc(1, -1)
    [] c.op = "RotateAbout"   -> MAbout(MRot90(c.a[1]), c.a[2], c.a[3])
    [] c.op = "ScaleAbout"    -> MAbout(MSc(c.a[1], c.a[2]), c.a[3], c.a[4])
    [] c.op = "ShearAbout"    -> MAbout(MSh(c.a[1], c.a[2]), c.a[3], c.a[4])
    [] c.op = "ReflectXAbout" -> MRefXAbout2(2*c.a[1])
    [] c.op = "ReflectYAbout" -> MRefYAbout2(2*c.a[1])
    [] c.op = "ComposeView"   -> c.a

StyleCalls ==
  CASE Profile = "stack"  -> {Call("SetFill", <<"red">>), Call("SetStroke", <<"blue">>)}
    [] Profile = "zorder" -> {Call("SetFill", <<"red">>)}
    [] Profile = "canvas" -> {Call("SetStroke", <<"blue">>), Call("SetStrokeWidth", <<2>>)}
    [] OTHER ->
     {Call("SetFill", <<f>>) : f \in Fills} \cup {Call("SetStroke", <<s>>) : s \in Strokes}
  \cup {Call("SetStrokeWidth", <<w>>) : w \in Widths}
  \cup {Call("SetDashes", <<d>>) : d \in Dashes}
  \cup {Call("ResetStyle", <<>>)}
  \cup (IF Profile = "small" THEN {} ELSE
          {Call("SetStrokeCapper", <<k>>) : k \in 0..2} \cup {Call("SetStrokeJoiner", <<k>>) : k \in 0..2}
          \cup {Call("SetFillRule", <<k>>) : k \in 0..1})
ApplyStyle(s, c) ==
  CASE c.op = "SetFill"         -> [s EXCEPT !.fill = c.a[1]]
    [] c.op = "SetStroke"       -> [s EXCEPT !.stroke = c.a[1]]
    [] c.op = "SetStrokeWidth"  -> [s EXCEPT !.width = c.a[1]]
    [] c.op = "SetStrokeCapper" -> [s EXCEPT !.cap = c.a[1]]
    [] c.op = "SetStrokeJoiner" -> [s EXCEPT !.join = c.a[1]]
    [] c.op = "SetDashes"       -> [s EXCEPT !.dash = c.a[1]]
    [] c.op = "SetFillRule"     -> [s EXCEPT !.rule = c.a[1]]
    [] c.op = "ResetStyle"      -> DefaultStyle

CoordCalls ==
  CASE Profile = "stack"  -> {Call("SetCoordSystem", <<1>>), Call("SetCoordSystem", <<3>>), Call("SetCoordView", MSc(2,2))}
    [] Profile = "zorder" -> {}
    [] Profile = "canvas" -> {Call("SetCoordSystem", <<2>>)}
    [] OTHER ->
         {Call("SetCoordSystem", <<k>>) : k \in 0..3}
         \cup {Call("SetCoordView", m) : m \in (IF Profile = "small" THEN {MSc(2,2)} ELSE {MId, MSc(2,2), MTr(1,2), MRot90(1)})}

DrawCalls ==
  CASE Profile = "stack"  -> {Call("DrawPath", <<2,1>>), Call("DrawText", <<0,0>>)}
    [] Profile = "zorder" -> {Call("DrawPath", <<0,0>>), Call("DrawImage", <<2,1>>), Call("DrawText", <<2,1>>)}
    [] Profile = "canvas" -> {Call("DrawPath", <<2,1>>), Call("DrawImage", <<0,0>>), Call("DrawImageHalf", <<1,0>>), Call("DrawLine", <<1,2>>), Call("FitImageCover", <<1,1>>)}
    [] OTHER ->
        {Call("DrawPath", p) : p \in Pos} \cup {Call("DrawText", p) : p \in Pos} \cup {Call("DrawImage", p) : p \in Pos}
        \cup {Call("Fill", <<>>), Call("Stroke", <<>>), Call("FillStroke", <<>>)}
        \cup {Call("DrawLine", <<1,2>>), Call("FitImageCover", <<1,1>>), Call("FitImageFill", <<0,2>>), Call("DrawImageHalf", <<1,2>>), Call("DrawImageHalf", <<-1,0>>)}

CanvasCalls ==
  CASE Profile = "stack"  -> {}
    [] Profile = "zorder" -> {Call("CanvasTransform", MRot90(1))}
    [] OTHER ->
          {Call("CanvasTransform", m) : m \in {MTr(1,1), MSc(2,2), MRot90(1)}}
          \cup {Call("CanvasClip", <<1,1,7,5>>)}                        \* rect x0,y0,x1,y1
          \cup {Call("CanvasFit", <<g>>) : g \in {0, 2}}
ZCalls == IF Profile \in {"stack", "canvas"} THEN {} ELSE {-1, 0, 1}
PushPop == Profile \notin {"zorder", "canvas"}

\* ---- actions ----------------------------------------------------------------------------------
Log(c) == hist' = Append(hist, c)
Step == Len(hist) + 1

ViewC(c) ==
    /\ view' = (IF c.op = "ResetView" THEN MId ELSE IF c.op = "SetView" THEN c.a ELSE MMul(view, ViewMatrix(c)))
    /\ Log(c) /\ UNCHANGED <<st, cview, csys, stack, z, layers, W, H>>
DoView == \E c \in ViewCalls : ViewC(c)

StyleC(c) ==
    /\ st' = ApplyStyle(st, c)
    /\ Log(c) /\ UNCHANGED <<view, cview, csys, stack, z, layers, W, H>>
DoStyle == \E c \in StyleCalls : StyleC(c)

CoordC(c) ==
    /\ IF c.op = "SetCoordSystem" THEN csys' = c.a[1] /\ UNCHANGED cview ELSE cview' = c.a /\ UNCHANGED csys
    /\ Log(c) /\ UNCHANGED <<st, view, stack, z, layers, W, H>>
DoCoord == \E c \in CoordCalls : CoordC(c)

DoPush == /\ stack' = Append(stack, [st |-> st, view |-> view, cview |-> cview, csys |-> csys])
          /\ Log(Call("Push", <<>>)) /\ UNCHANGED <<st, view, cview, csys, z, layers, W, H>>

DoPop == /\ IF stack = <<>> THEN UNCHANGED <<st, view, cview, csys, stack>>     \* documented: does nothing
            ELSE LET top == stack[Len(stack)] IN
                 /\ st' = top.st /\ view' = top.view /\ cview' = top.cview /\ csys' = top.csys
                 /\ stack' = SubSeq(stack, 1, Len(stack) - 1)
         /\ Log(Call("Pop", <<>>)) /\ UNCHANGED <<z, layers, W, H>>

ZC(k) == z' = k /\ Log(Call("SetZIndex", <<k>>)) /\ UNCHANGED <<st, view, cview, csys, stack, layers, W, H>>
DoZ == \E k \in ZCalls : ZC(k)

PathLayer(s, m) == [z |-> z, kind |-> "path", m |-> m, st |-> s, step |-> Step, iw |-> 0, ih |-> 0]
DrawC(c) ==
    /\ layers' =
        CASE c.op = "DrawPath"   -> IF HasFill(st) \/ HasStroke(st) THEN Append(layers, PathLayer(st, DrawMatrix(c.a[1], c.a[2]))) ELSE layers
          [] c.op = "DrawLine"   -> IF HasFill(st) \/ HasStroke(st) THEN Append(layers, [PathLayer(st, DrawMatrix(c.a[1], c.a[2])) EXCEPT !.kind = "line"]) ELSE layers
          [] c.op = "DrawText"   -> Append(layers, [z |-> z, kind |-> "text", m |-> TextMatrix(c.a[1], c.a[2]), st |-> DefaultStyle, step |-> Step, iw |-> 0, ih |-> 0])
          [] c.op = "DrawImage"  -> Append(layers, [z |-> z, kind |-> "image", m |-> ImageMatrix(c.a[1], c.a[2]), st |-> DefaultStyle, step |-> Step, iw |-> ImgW, ih |-> ImgH])
          [] c.op = "DrawImageHalf" -> Append(layers, [z |-> z, kind |-> "image", m |-> ImageMatrixHalf(c.a[1], c.a[2]), st |-> DefaultStyle, step |-> Step, iw |-> ImgW, ih |-> ImgH])
          [] c.op = "FitImageCover" -> Append(layers, [z |-> z, kind |-> "image", m |-> FitMatrix(c.a[1], c.a[2], 2), st |-> DefaultStyle, step |-> Step, iw |-> FitW, ih |-> 2])
          [] c.op = "FitImageFill"  -> Append(layers, [z |-> z, kind |-> "image", m |-> FitMatrix(c.a[1], c.a[2], 6), st |-> DefaultStyle, step |-> Step, iw |-> FitW, ih |-> 6])
          [] c.op = "Fill"       -> LET s == [st EXCEPT !.stroke = "none"] IN
                                    IF HasFill(s) THEN Append(layers, PathLayer(s, DrawMatrix(0,0))) ELSE layers
          [] c.op = "Stroke"     -> LET s == [st EXCEPT !.fill = "none"] IN
                                    IF HasStroke(s) THEN Append(layers, PathLayer(s, DrawMatrix(0,0))) ELSE layers
          [] c.op = "FillStroke" -> IF HasFill(st) \/ HasStroke(st) THEN Append(layers, PathLayer(st, DrawMatrix(0,0))) ELSE layers
    /\ Log(c) /\ UNCHANGED <<st, view, cview, csys, stack, z, W, H>>
DoDraw == \E c \in DrawCalls : DrawC(c)

\* content box of a layer in canvas space: <<x0,y0,x1,y1>> scaled by 2 (stroke half-widths are half-integers for width 1)
Min(S) == CHOOSE v \in S : \A w \in S : v <= w
Max(S) == CHOOSE v \in S : \A w \in S : w <= v
LocalBox2(l) ==   \* twice the local bounds
    IF l.kind = "path" THEN LET hw2 == IF HasStroke(l.st) THEN l.st.width ELSE 0    \* 2 * (width/2)
                            IN <<0 - hw2, 0 - hw2, 8 + hw2, 6 + hw2>>
    ELSE IF l.kind = "line" THEN LET hw2 == IF HasStroke(l.st) THEN l.st.width ELSE 0       \* the horizontal line (0,0)-(6,0)
                                 IN <<0 - hw2, 0 - hw2, 12 + hw2, 0 + hw2>>
    ELSE IF l.kind = "image" THEN <<0, 0, 2*l.iw, 2*l.ih>>
    ELSE <<0,0,0,0>>                                                               \* text: not modelled (Fit is disabled when text is present)
Box2(l) == LET b == LocalBox2(l)
               m2 == <<l.m[1], l.m[2], 2*l.m[3], l.m[4], l.m[5], 2*l.m[6]>>        \* acts on doubled coordinates
               cs == {MDot(m2, <<b[1],b[2]>>), MDot(m2, <<b[3],b[2]>>), MDot(m2, <<b[3],b[4]>>), MDot(m2, <<b[1],b[4]>>)}
           IN << Min({c[1] : c \in cs}), Min({c[2] : c \in cs}), Max({c[1] : c \in cs}), Max({c[2] : c \in cs}) >>
\* canvas.Fit skips layers whose (stroke-expanded) local bounds have zero width or height: they have no extent
HasExtent(l) == LET b == LocalBox2(l) IN b[1] # b[3] /\ b[2] # b[4]
ContentBox2 == IF \A i \in 1..Len(layers) : ~HasExtent(layers[i]) THEN <<0,0,0,0>>
               ELSE LET bs == {Box2(layers[i]) : i \in {j \in 1..Len(layers) : HasExtent(layers[j])}}
                    IN << Min({b[1] : b \in bs}), Min({b[2] : b \in bs}), Max({b[3] : b \in bs}), Max({b[4] : b \in bs}) >>
HasText == \E i \in 1..Len(layers) : layers[i].kind = "text"
Even4(b) == \A i \in 1..4 : b[i] % 2 = 0

TransformLayers(g) == [i \in 1..Len(layers) |-> [layers[i] EXCEPT !.m = MMul(g, layers[i].m)]]
CanFit == ~HasText /\ Even4(ContentBox2)     \* keep the canvas size integral in the model
CanvasC(c) ==
    /\ CASE c.op = "CanvasTransform" -> layers' = TransformLayers(c.a) /\ UNCHANGED <<W, H>>
         [] c.op = "CanvasClip" -> /\ layers' = TransformLayers(MTr(0 - c.a[1], 0 - c.a[2]))
                                   /\ W' = c.a[3] - c.a[1] /\ H' = c.a[4] - c.a[2]
         [] c.op = "CanvasFit" -> LET b == ContentBox2 g == c.a[1] IN
                                   /\ CanFit
                                   /\ layers' = TransformLayers(MTr(0 - (b[1] \div 2 - g), 0 - (b[2] \div 2 - g)))
                                   /\ W' = (b[3] - b[1]) \div 2 + 2*g /\ H' = (b[4] - b[2]) \div 2 + 2*g
    /\ Log(c) /\ UNCHANGED <<st, view, cview, csys, stack, z>>
DoCanvas == \E c \in CanvasCalls : CanvasC(c)

Init == /\ st = DefaultStyle /\ view = MId /\ cview = MId /\ csys = 0 /\ stack = <<>> /\ z = 0
        /\ layers = <<>> /\ W = W0 /\ H = H0 /\ hist = <<>>

Bounded == /\ Len(hist) < MaxLen
Next == Bounded /\ (DoView \/ DoStyle \/ DoCoord \/ (PushPop /\ DoPush) \/ (PushPop /\ DoPop) \/ DoZ \/ DoDraw \/ DoCanvas)
Spec == Init /\ [][Next]_vars

\* ---- expected observation: what RenderTo must replay ------------------------------------------
ZSet == {layers[i].z : i \in 1..Len(layers)}
RECURSIVE Sorted(_)
Sorted(zs) == IF zs = {} THEN <<>>
              ELSE LET k == Min(zs) IN SelectSeq(layers, LAMBDA l : l.z = k) \o Sorted(zs \ {k})
RenderOrder == Sorted(ZSet)

\* views stay invertible: under a singular view a drawing collapses to a line or a point and "content" has no extent
Small == /\ \A i \in 1..Len(layers) : MMaxAbs(layers[i].m) <= 4096 /\ MDet(layers[i].m) # 0
         /\ MMaxAbs(view) <= 512 /\ MDet(view) # 0 /\ MDet(cview) # 0
Scenario == [hist |-> hist, w0 |-> W0, h0 |-> H0, w |-> W, h |-> H,
             events |-> [i \in 1..Len(RenderOrder) |-> [kind |-> RenderOrder[i].kind, m |-> RenderOrder[i].m,
                                                       st |-> RenderOrder[i].st, step |-> RenderOrder[i].step, z |-> RenderOrder[i].z]]]
EmitInv == (EmitAt > 0 /\ Len(hist) = EmitAt) => PrintT("@@" \o ToJson(Scenario))

\* ---- model-level properties --------------------------------------------------------------------
TypeOK == /\ st.fill \in Fills /\ st.stroke \in Strokes /\ csys \in 0..3 /\ z \in {-1,0,1}
          /\ (W >= 0 /\ H >= 0)
\* recorded layers are immutable except for their matrix under Canvas.Transform/Clip/Fit; setters never touch them
LayersStable == [][ /\ Len(layers') >= Len(layers)
                    /\ \A i \in 1..Len(layers) : /\ layers'[i].st = layers[i].st /\ layers'[i].kind = layers[i].kind
                                                  /\ layers'[i].z = layers[i].z
                                                  /\ (hist'[Len(hist')].op \notin {"CanvasTransform","CanvasClip","CanvasFit"} => layers'[i].m = layers[i].m) ]_vars
\* the replay order is ascending in z and, within a z, in drawing order
OrderOK == LET r == RenderOrder IN \A i, j \in 1..Len(r) : i < j => (r[i].z < r[j].z \/ (r[i].z = r[j].z /\ r[i].step <= r[j].step))
\* after Fit(g) the content box is exactly [g, W-g] x [g, H-g]
FitPost == (hist # <<>> /\ hist[Len(hist)].op = "CanvasFit" /\ \E i \in 1..Len(layers) : HasExtent(layers[i])) =>
              LET g == hist[Len(hist)].a[1] b == ContentBox2 IN
              b = <<2*g, 2*g, 2*(W - g), 2*(H - g)>>
\* Pop after Push restores the state for any nesting: the stack holds exactly the states at the unmatched pushes
RECURSIVE Unmatched(_, _)
Unmatched(h, acc) == IF h = <<>> THEN acc
                     ELSE IF Head(h).op = "Push" THEN Unmatched(Tail(h), acc + 1)
                     ELSE IF Head(h).op = "Pop" /\ acc > 0 THEN Unmatched(Tail(h), acc - 1)
                     ELSE Unmatched(Tail(h), acc)
StackDepth == Len(stack) = Unmatched(hist, 0)
PushPopRestores == [][ (hist' # hist /\ hist'[Len(hist')].op = "Pop" /\ stack # <<>>) =>
                        <<st', view', cview', csys'>> = <<stack[Len(stack)].st, stack[Len(stack)].view, stack[Len(stack)].cview, stack[Len(stack)].csys>> ]_vars
=============================================================================
