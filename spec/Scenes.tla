------------------------------- MODULE Scenes -------------------------------
(* C02 (and any other user of BoolOps): scenarios whose operand is chosen by a seeded driver instead of by     *)
(* RandomSubset -- families that a uniform choice over [1..K -> Pt] practically never hits (two contours that   *)
(* share an edge and a third one crossing that edge at a non-lattice point; a contour doubling back over its   *)
(* own edge; scenes of 1-4 contours with 3-7 vertices).  The driver writes the operands to scenes.ndjson, one   *)
(* {"p": [[ [x,y],.. ],..]} per line; every line is an initial state, and the Emit action of BoolOps prints the *)
(* scenario with the expected cells of Settle under the four fill rules and the exact feature predicates.      *)
(* Nothing about the operand is trusted: features and cells are computed here.                                 *)
EXTENDS BoolOps
Scenes == ndJsonDeserialize("scenes.ndjson")
SInit == /\ p \in {Scenes[i].p : i \in 1..Len(Scenes)}
         /\ q = <<>>
         /\ done = FALSE
SSpec == SInit /\ [][Emit]_vars
\* design-level: the settle laws hold on every scene as well
=============================================================================
