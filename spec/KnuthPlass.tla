----------------------------- MODULE KnuthPlass -----------------------------
(* Knuth & Plass, "Breaking Paragraphs into Lines" (1981): the published DEFINITIONS, stated        *)
(* declaratively over exact integers / rationals, for property C17 (text.Linebreak) and, through   *)
(* the per-line operators, C16.  Nothing here is a dynamic program: a breaking is any set of legal *)
(* breakpoints that contains every forced break and the final one; its lines, ratios, feasibility  *)
(* and demerits are defined line by line; the optimum is found by enumerating ALL breakings        *)
(* (AllJudged), or - the same set minus the breakings with a surely infeasible line - all paths    *)
(* through the lines that are not surely infeasible (FeasFrom / PathsFrom; invariants FeasComplete *)
(* and PathsAgree tie the path enumerations to the brute-force one). No cost-based pruning anywhere.*)
(*                                                                                                  *)
(* item  = <<t, w, y, z, p, f>>   t = 0 box | 1 glue | 2 penalty ; w width ; y stretch ; z shrink ;  *)
(*                                p penalty (>= Inf: never break, <= -Inf: forced) ; f = 1 flagged   *)
(* Constants are the ones text/linebreak.go documents: Tolerance 2, DemeritsLine 10,                *)
(* DemeritsFlagged 100, DemeritsFitness 100, Infinity 1000, fitness classes split at -1/2, 1/2, 1, *)
(* looseness 0.  Positions are 1-based here and printed 0-based (library convention).              *)
EXTENDS Integers, Sequences, FiniteSets, TLC, Json, Randomization

CONSTANTS Mode,      \* "exh": every item list with NFree free items | "rand": RandomSubset(NRand, ..) of them
                     \* "para": NRand paragraph-shaped lists of NFree words | "corpus": the stored scenarios of
                     \* kp_corpus.ndjson | "none" (trace specs)
          NFree,     \* number of free items (the list is free \o <<Glue(0,Inf,0), Penalty(-Inf)>>)
          NRand,
          MinW, MaxW,  \* line widths MinW..MaxW
          Alpha      \* "std" | "ext" (adds a negative finite penalty, a zero-width box, a wide glue)

VARIABLES items, width,
          ph,    \* 0: scenario chosen ; 1: line table built (the work happens in the Build action, i.e. in TLC's worker threads)
          lt     \* the table of all candidate lines (derived; a variable so that TLC stores it evaluated)
vars == <<items, width, ph, lt>>

Inf      == 1000
Tol      == 2
DLine    == 10
DFlag    == 100
DFit     == 100
EpsDen   == 1000000       \* epsilon = 1 / EpsDen

Abs(x) == IF x < 0 THEN 0 - x ELSE x
Min2(a, b) == IF a <= b THEN a ELSE b
Max2(a, b) == IF a >= b THEN a ELSE b

\* ---- items --------------------------------------------------------------------------------------
Box(w)       == <<0, w, 0, 0, 0, 0>>
Glue(w,y,z)  == <<1, w, y, z, 0, 0>>
Pen(w,p,f)   == <<2, w, 0, 0, p, f>>
IsBox(x)  == x[1] = 0
IsGlue(x) == x[1] = 1
IsPen(x)  == x[1] = 2
IsForced(x) == IsPen(x) /\ x[5] <= 0 - Inf
TailItems == <<Glue(0, Inf, 0), Pen(0, 0 - Inf, 0)>>      \* what the library's item builder always appends

\* ---- legal breakpoints (property statement): a penalty below +infinity, or glue directly after a box
\*      that does not directly precede a penalty ------------------------------------------------------
LegalAt(it, i) == \/ IsPen(it[i]) /\ it[i][5] < Inf
                  \/ /\ IsGlue(it[i]) /\ i > 1 /\ IsBox(it[i-1])
                     /\ (i < Len(it) => ~IsPen(it[i+1]))
Legal(it)  == {i \in 1..Len(it) : LegalAt(it, i)}
Forced(it) == {i \in 1..Len(it) : IsForced(it[i])}
\* a breaking: legal breakpoints, containing every forced one and the last item (itself a forced break)
IsBreaking(it, B) == B \subseteq Legal(it) /\ Forced(it) \subseteq B /\ Len(it) \in B
Breakings(it) == {S \cup Forced(it) : S \in SUBSET (Legal(it) \ Forced(it))}
SeqOf(B, n) == SelectSeq([i \in 1..n |-> i], LAMBDA i : i \in B)

\* ---- lines ---------------------------------------------------------------------------------------
\* after(b): the first box or forced break after b; the line after a break at b starts there
\* (glue and non-forced penalties right after a break are discarded).  The paragraph starts at item 1.
RECURSIVE AfterFrom(_, _)
AfterFrom(it, j) == IF j > Len(it) \/ IsBox(it[j]) \/ IsForced(it[j]) THEN j ELSE AfterFrom(it, j + 1)
After(it, b) == IF b = 0 THEN 1 ELSE AfterFrom(it, b + 1)
RECURSIVE SumF(_, _, _, _)           \* sum of field k over the boxes and glue among items i..j
SumF(it, k, i, j) == IF i > j THEN 0
                     ELSE (IF it[i][1] \in {0, 1} THEN it[i][k] ELSE 0) + SumF(it, k, i + 1, j)
PenW(it, b) == IF IsPen(it[b]) THEN it[b][2] ELSE 0
NatW(it, a, b) == SumF(it, 2, After(it, a), b - 1) + PenW(it, b)     \* natural width L of the line a -> b
NatY(it, a, b) == SumF(it, 3, After(it, a), b - 1)                   \* its stretchability
NatZ(it, a, b) == SumF(it, 4, After(it, a), b - 1)                   \* its shrinkability

\* ---- exact rationals n/d (d > 0) --------------------------------------------------------------------
QLe(n1, d1, n2, d2) == n1 * d2 <= n2 * d1
QLt(n1, d1, n2, d2) == n1 * d2 <  n2 * d1
\* |n/d - kn/kd| <= epsilon, without overflowing 32 bits (m > 2000 would need d*kd > 2*10^9)
NearQ(n, d, kn, kd) == LET m == Abs(n * kd - kn * d) IN m = 0 \/ (m <= 2000 /\ m * EpsDen <= d * kd)

\* adjustment ratio of a line with natural sums L, Y, Z and target l:
\*   0 if L = l ; (l-L)/Y if L < l and Y > 0 ; (l-L)/Z if L > l and Z > 0 ; undefined otherwise
RatioDef(l, L, Y, Z) == L = l \/ (L < l /\ Y > 0) \/ (L > l /\ Z > 0)
RatioN(l, L, Y, Z) == l - L
RatioD(l, L, Y, Z) == IF L = l THEN 1 ELSE IF L < l THEN Y ELSE Z

\* Three-valued feasibility of one line at the published limits -1 <= r <= Tol.
\* "F" surely feasible, "I" surely infeasible, "B" borderline: r within epsilon of a limit, or a line that
\* fits exactly but has no stretch (or no shrink) at all, or a short line of negative total stretch.
\* Borderline lines neither oblige nor excuse (DESIGN.md C17 calibration: float sums give -1.0000000000000002).
LineCls(l, L, Y, Z) ==
  IF L = l THEN (IF Y > 0 /\ Z > 0 THEN "F" ELSE "B")
  ELSE IF L < l THEN (IF Y = 0 THEN "I" ELSE IF Y < 0 THEN "B"
                      ELSE IF NearQ(l - L, Y, Tol, 1) THEN "B"
                      ELSE IF QLe(l - L, Y, Tol, 1) THEN "F" ELSE "I")
  ELSE (IF Z = 0 THEN "I" ELSE IF Z < 0 THEN "B"
        ELSE IF NearQ(l - L, Z, -1, 1) THEN "B"
        ELSE IF QLe(-1, 1, l - L, Z) THEN "F" ELSE "I")
\* The exact reading -1 <= r <= Tol of the published definition. Used for the identity embedding only: there every
\* length is a small integer, all float sums, the comparisons L < l / L > l and the quotients -1, 0, Tol are exact, so
\* a borderline line IS feasible (a line whose natural width equals the line width has ratio 0 whatever its glue).
\* Only the short line of negative total stretch stays undecided.
LineClsX(l, L, Y, Z) ==
  IF L = l THEN "F"
  ELSE IF L < l THEN (IF Y = 0 THEN "I" ELSE IF Y < 0 THEN "B" ELSE IF QLe(l - L, Y, Tol, 1) THEN "F" ELSE "I")
  ELSE (IF Z = 0 THEN "I" ELSE IF Z < 0 THEN "B" ELSE IF QLe(-1, 1, l - L, Z) THEN "F" ELSE "I")
\* can the line be shrunk to fit (r >= -1), three-valued
ShrCls(l, L, Y, Z) ==
  IF L < l THEN (IF Y < 0 THEN "B" ELSE "F")
  ELSE IF L = l THEN (IF Z > 0 THEN "F" ELSE "B")
  ELSE (IF Z = 0 THEN "I" ELSE IF Z < 0 THEN "B"
        ELSE IF NearQ(l - L, Z, -1, 1) THEN "B"
        ELSE IF QLe(-1, 1, l - L, Z) THEN "F" ELSE "I")
\* stretch needed: <<n, d>> with d = 0 meaning "cannot be stretched to the width at all"
StretchNeed(l, L, Y, Z) == IF L >= l THEN <<0, 1>> ELSE IF Y > 0 THEN <<l - L, Y>> ELSE <<1, 0>>
QMaxInf(p, q) == IF p[2] = 0 THEN p ELSE IF q[2] = 0 THEN q ELSE IF QLe(p[1], p[2], q[1], q[2]) THEN q ELSE p
QLeInf(p, q)  == IF q[2] = 0 THEN TRUE ELSE IF p[2] = 0 THEN FALSE ELSE QLe(p[1], p[2], q[1], q[2])

\* fitness classes: 0 tight r < -1/2 ; 1 normal -1/2 <= r <= 1/2 ; 2 loose 1/2 < r <= 1 ; 3 very loose r > 1.
\* exactly on a boundary (within epsilon) both neighbouring classes are admitted.
FitSet(n, d) == {c \in 0..3 :
                   \/ c = 0 /\ (QLt(2 * n, d, -1, 1) \/ NearQ(2 * n, d, -1, 1))
                   \/ c = 1 /\ ((QLe(-1, 1, 2 * n, d) /\ QLe(2 * n, d, 1, 1)) \/ NearQ(2 * n, d, -1, 1) \/ NearQ(2 * n, d, 1, 1))
                   \/ c = 2 /\ ((QLt(1, 1, 2 * n, d) /\ QLe(n, d, 1, 1)) \/ NearQ(2 * n, d, 1, 1) \/ NearQ(n, d, 1, 1))
                   \/ c = 3 /\ (QLt(1, 1, n, d) \/ NearQ(n, d, 1, 1))}

\* Demerits are kept in units of 1/10000 as two-limb numbers <<H, L>> = H * 10000 + L with 0 <= L < 10000 (TLC integers
\* have 32 bits; an optimum lost by less than DemeritsFitness = 100 must still be outside the rounding interval).
DN(H, L) == <<H + L \div 10000, L % 10000>>
DAdd(p, q) == DN(p[1] + q[1], p[2] + q[2])
DLe(p, q) == p[1] < q[1] \/ (p[1] = q[1] /\ p[2] <= q[2])
DMinOf(S) == CHOOSE v \in S : \A w \in S : DLe(v, w)
DSq(B) == LET b1 == B \div 100  b0 == B % 100 IN DN(b1 * b1, 200 * b1 * b0 + b0 * b0)      \* B^2 for 0 <= B < 2 * 10^5
\* badness 100 |r|^3 in hundredths, as an integer interval  lo <= 10000 |n|^3 / d^3 <= hi  (in tenths times 10 for |n| > 51)
CeilDiv(a, b) == (a + b - 1) \div b
BadLo10(n, d) == LET m == Abs(n) IN IF 10 * m <= d THEN 0 ELSE (1000 * m * m * m) \div (d * d * d)
BadHi10(n, d) == LET m == Abs(n) IN IF 10 * m <= d THEN 1 ELSE CeilDiv(1000 * m * m * m, d * d * d)
BadLo(n, d) == LET m == Abs(n) IN IF 25 * m <= d THEN 0 ELSE IF m <= 51 THEN (10000 * m * m * m) \div (d * d * d) ELSE 10 * BadLo10(n, d)
BadHi(n, d) == LET m == Abs(n) IN IF 25 * m <= d THEN 1 ELSE IF m <= 51 THEN CeilDiv(10000 * m * m * m, d * d * d) ELSE 10 * BadHi10(n, d)
\* demerits of one line, without the flag / fitness terms (bad: badness in hundredths):
\*   (DLine + badness + p)^2  if p >= 0 ; (DLine + badness)^2 - p^2  if -Inf < p < 0 ; (DLine + badness)^2 otherwise
LineDem(it, b, bad) ==
  LET base == 100 * DLine + bad
      p == IF IsPen(it[b]) THEN it[b][5] ELSE 0
  IN IF IsPen(it[b]) /\ p >= 0 /\ p < Inf THEN DSq(base + 100 * p)
     ELSE IF IsPen(it[b]) /\ p < 0 /\ p > 0 - Inf THEN LET q == DSq(base) IN <<q[1] - p * p, q[2]>>
     ELSE DSq(base)

\* everything about the candidate line that ends at b and has natural sums L, Y, Z (L includes b's penalty width)
LineRecS(it, l, b, L, Y, Z) ==
  LET def == RatioDef(l, L, Y, Z)
      n == RatioN(l, L, Y, Z)  d == RatioD(l, L, Y, Z)
      cls == LineCls(l, L, Y, Z)
      dem == cls # "I" /\ def /\ d > 0 /\ Abs(n) <= 100      \* demerits are only needed (and bounded) for lines that may be feasible
  IN [L |-> L, Y |-> Y, Z |-> Z, def |-> def, n |-> n, d |-> d, cls |-> cls, clsx |-> LineClsX(l, L, Y, Z), shr |-> ShrCls(l, L, Y, Z),
      st |-> StretchNeed(l, L, Y, Z),
      fit |-> IF dem THEN FitSet(n, d) ELSE {},
      dlo |-> IF dem THEN LineDem(it, b, BadLo(n, d)) ELSE <<0, 0>>,
      dhi |-> IF dem THEN LineDem(it, b, BadHi(n, d)) ELSE <<0, 0>>,
      flag |-> it[b][6] = 1]
\* the candidate line a -> b (a = 0: start of the paragraph)
LineRec(it, l, a, b) == LineRecS(it, l, b, NatW(it, a, b), NatY(it, a, b), NatZ(it, a, b))
Pairs(it) == {p \in (Legal(it) \cup {0}) \X Legal(it) : p[1] < p[2]}
LineTable(it, l) == [p \in Pairs(it) |-> LineRec(it, l, p[1], p[2])]

\* ---- a breaking, judged ----------------------------------------------------------------------------
Worst(S) == IF "I" \in S THEN "I" ELSE IF "B" \in S THEN "B" ELSE "F"
FitLo(F1, F2) == IF \E c1 \in F1, c2 \in F2 : Abs(c1 - c2) <= 1 THEN <<0, 0>> ELSE <<DFit, 0>>
FitHi(F1, F2) == IF \E c1 \in F1, c2 \in F2 : Abs(c1 - c2) > 1 THEN <<DFit, 0>> ELSE <<0, 0>>
\* s: the breaking as an increasing sequence of positions, recs[j]: the record of its j-th line
JudgeRecs(s, recs) ==
  LET k == Len(s)
      ln(j) == recs[j]
      cls == Worst({ln(j).cls : j \in 1..k})
      clsx == Worst({ln(j).clsx : j \in 1..k})
      shr == Worst({ln(j).shr : j \in 1..k})
      fitOf(j) == IF j = 0 THEN {1} ELSE ln(j).fit            \* the paragraph starts in class 1
      flagOf(j) == IF j = 0 THEN FALSE ELSE ln(j).flag
      RECURSIVE DSum(_, _)
      DSum(j, hi) == IF j > k THEN <<0, 0>>
                     ELSE DAdd(DAdd(IF hi THEN ln(j).dhi ELSE ln(j).dlo,
                                    IF flagOf(j-1) /\ flagOf(j) THEN <<DFlag, 0>> ELSE <<0, 0>>),
                               DAdd(IF hi THEN FitHi(fitOf(j-1), fitOf(j)) ELSE FitLo(fitOf(j-1), fitOf(j)),
                                    DSum(j + 1, hi)))
      RECURSIVE MaxSt(_)
      MaxSt(j) == IF j > k THEN <<0, 1>> ELSE QMaxInf(ln(j).st, MaxSt(j + 1))
  IN [b |-> [j \in 1..k |-> s[j] - 1], cls |-> cls, clsx |-> clsx, shr |-> shr,
      dlo |-> IF cls = "I" THEN <<0, 0>> ELSE DSum(1, FALSE), dhi |-> IF cls = "I" THEN <<0, 0>> ELSE DSum(1, TRUE),
      mx |-> MaxSt(1)]
\* T: line table
Judge(T, s) == JudgeRecs(s, [j \in 1..Len(s) |-> T[<<IF j = 1 THEN 0 ELSE s[j-1], s[j]>>]])
AllJudged(it, T) == {Judge(T, SeqOf(B, Len(it))) : B \in Breakings(it)}

MinOf(S) == CHOOSE v \in S : \A w \in S : v <= w

\* All breakings without a surely infeasible line, enumerated as paths (still every one of them, no cost pruning):
\* from break a the next break is any legal b up to the next forced break whose line a -> b is not class "I".
NextForced(it, a) == MinOf({f \in Forced(it) : f > a})
RECURSIVE FeasFrom(_, _, _)
FeasFrom(it, T, a) ==
  IF a = Len(it) THEN {<<>>}
  ELSE LET nf == NextForced(it, a)
           cand == {b \in Legal(it) : a < b /\ b <= nf /\ T[<<a, b>>].cls # "I"}
       IN UNION {{<<b>> \o s : s \in FeasFrom(it, T, b)} : b \in cand}
NotInfJudged(it, T) == {Judge(T, s) : s \in FeasFrom(it, T, 0)}
SmallEnough(it) == Cardinality(Legal(it) \ Forced(it)) <= 9
\* The same enumeration without a precomputed table, for long lists: scan forward from After(a) with running sums and
\* stop at the next forced break or when the line can no longer be shrunk to fit (needs shrink <= width per glue).
\* A path is a sequence of [b, r] (breakpoint, record of the line that ends there).
RECURSIVE PathsFrom(_, _, _)
PathsFrom(it, l, a) ==
  IF a = Len(it) THEN {<<>>}
  ELSE LET RECURSIVE S(_, _, _, _)
           S(j, Ls, Ys, Zs) ==
             IF j > Len(it) THEN {}
             ELSE LET x == it[j]
                      rec == LineRecS(it, l, j, Ls + (IF IsPen(x) THEN x[2] ELSE 0), Ys, Zs)
                      here == IF LegalAt(it, j) /\ rec.cls # "I"
                              THEN {<<[b |-> j, r |-> rec]>> \o s : s \in PathsFrom(it, l, j)} ELSE {}
                  IN IF IsForced(x) \/ Ls - Zs > l THEN here
                     ELSE here \cup S(j + 1, Ls + (IF x[1] \in {0, 1} THEN x[2] ELSE 0),
                                       Ys + (IF IsGlue(x) THEN x[3] ELSE 0), Zs + (IF IsGlue(x) THEN x[4] ELSE 0))
       IN S(After(it, a), 0, 0, 0)
JudgePath(p) == JudgeRecs([j \in 1..Len(p) |-> p[j].b], [j \in 1..Len(p) |-> p[j].r])

\* ---- scenario features (Appendix B of DESIGN.md): inputs outside the restrictions under which Knuth & Plass prove
\*      their ALGORITHM correct; the DEFINITIONS above do not need them. Used only to make signatures specific. --------
\* Restriction 1 (the shortest possible length of a line grows with its end point) fails where it matters: from some
\* start a, the line to b cannot (surely) be shrunk to fit, yet the line to a later b2 is not surely too long.
\* Happens only through penalty widths (a hyphen wider than what follows it).
FeatDeact(T) == \E p \in DOMAIN T, q \in DOMAIN T : /\ p[1] = q[1] /\ p[2] < q[2] /\ T[p].shr # "F" /\ T[q].shr # "I"
                                                      /\ T[q].L - T[q].Z < T[p].L - T[p].Z
\* Two legal breakpoints a < b with no box between them, followed by glue before the next box: the glue discarded
\* after a lies beyond b, so running sums give the (empty) line a -> b a negative width / stretch / shrink.
FeatEmptyGlue(it) == \E a \in Legal(it), b \in Legal(it) : a < b /\ After(it, a) > b
                        /\ \E i \in b..(After(it, a) - 1) : IsGlue(it[i]) /\ <<it[i][2], it[i][3], it[i][4]>> # <<0, 0, 0>>
\* ... and, narrower, such a pair where the discarded glue beyond b has positive total stretch Sy: the running-sum
\* "line" a -> b then has stretch -Sy < 0 and a negative ratio (l - (w_b - Sw)) / (-Sy); below -1 an implementation of
\* the published algorithm deactivates the node at a, between -1 and 0 it accepts the empty line as feasible - either
\* way the set of breakings it optimises over is not the one the definitions give
FeatEmptyGlueDeact(it, l) ==
  \E a \in Legal(it), b \in Legal(it) : a < b /\ After(it, a) > b
     /\ LET Sw == SumF(it, 2, b, After(it, a) - 1)  Sy == SumF(it, 3, b, After(it, a) - 1) IN
        Sy > 0 /\ l - (PenW(it, b) - Sw) > 0
Features(it, T, l) == (IF FeatDeact(T) THEN {"deact"} ELSE {}) \cup (IF FeatEmptyGlue(it) THEN {"emptyglue"} ELSE {})
                      \cup (IF FeatEmptyGlueDeact(it, l) THEN {"emptydeact"} ELSE {})
\* the verdict fields the replay driver needs
Verdict(it, l, T) ==
  LET NB == NotInfJudged(it, T)
      complete == NB = {} /\ SmallEnough(it)            \* then J holds every breaking (all of them class "I")
      J == IF NB # {} THEN NB ELSE IF complete THEN AllJudged(it, T) ELSE {}
      SF == {j \in J : j.cls = "F"}
      SFX == {j \in J : j.clsx = "F"}
      SS == {j \in J : j.shr = "F"}
      fin == {j \in SS : j.mx[2] # 0}
      tstar == IF fin = {} THEN <<1, 0>> ELSE (CHOOSE j \in fin : \A i \in fin : QLe(j.mx[1], j.mx[2], i.mx[1], i.mx[2])).mx
  IN [items |-> it, width |-> l,
      legal |-> {i - 1 : i \in Legal(it)}, forced |-> {i - 1 : i \in Forced(it)},
      ln |-> {[a |-> p[1] - 1, b |-> p[2] - 1, L |-> T[p].L, def |-> T[p].def, n |-> T[p].n, d |-> T[p].d, cls |-> T[p].cls, clsx |-> T[p].clsx,
               e |-> After(it, p[1]) > p[2]] : p \in DOMAIN T},      \* e: nothing between the two breakpoints
      brk |-> J,
      sf |-> SF # {}, mind |-> IF SF = {} THEN <<-1, 0>> ELSE DMinOf({j.dhi : j \in SF}),
      sfx |-> SFX # {}, mindx |-> IF SFX = {} THEN <<-1, 0>> ELSE DMinOf({j.dhi : j \in SFX}),      \* exact reading (identity embedding)
      feat |-> Features(it, T, l),
      complete |-> complete,
      allinf |-> complete,
      sshr |-> SS # {}, noshr |-> complete /\ \A j \in J : j.shr = "I", tstar |-> tstar]

\* Scenario feature "the optimum runs through a dearer fitness class" (steering / evidence only): EVERY breaking that may
\* be the optimum (surely feasible, demerits_lo <= the least demerits_hi) reaches some inner breakpoint b as its i-th
\* break while another breaking without a surely infeasible line reaches b as its i-th break too, ends there in a
\* different fitness class and is strictly cheaper up to b. An algorithm that keeps, per breakpoint and line number,
\* only the cheapest fitness class loses such an optimum; the published one keeps every class within DemeritsFitness
\* of the cheapest.
Prefix(p, i) == JudgeRecs([j \in 1..i |-> p[j].b], [j \in 1..i |-> p[j].r])
DLt(p, q) == ~DLe(q, p)
OptViaDearer(P) ==
  LET F == {p \in P : JudgePath(p).cls = "F"} IN
  IF F = {} THEN FALSE
  ELSE LET m == DMinOf({JudgePath(p).dhi : p \in F})
           Opt == {p \in F : DLe(JudgePath(p).dlo, m)}
       IN \A p \in Opt : \E i \in 1..(Len(p) - 1) :
             \E q \in P : /\ Len(q) > i /\ q[i].b = p[i].b /\ q[i].r.fit \cap p[i].r.fit = {}
                           /\ Prefix(q, i).cls # "I" /\ DLt(Prefix(q, i).dhi, Prefix(p, i).dlo)
\* Verdict for long lists (Mode "para"): only the breakings without a surely infeasible line are judged, each with the
\* data of its own lines (ls); no relaxation clause (complete = FALSE).
VerdictP(it, l) ==
  LET P == PathsFrom(it, l, 0)
      J == {[j |-> JudgePath(p),
             ls |-> [i \in 1..Len(p) |-> [L |-> p[i].r.L, def |-> p[i].r.def, n |-> p[i].r.n, d |-> p[i].r.d, cls |-> p[i].r.cls, clsx |-> p[i].r.clsx]]] : p \in P}
      SF == {x \in J : x.j.cls = "F"}
      SFX == {x \in J : x.j.clsx = "F"}
  IN [items |-> it, width |-> l,
      legal |-> {i - 1 : i \in Legal(it)}, forced |-> {i - 1 : i \in Forced(it)},
      ln |-> {},
      brk |-> {[b |-> x.j.b, cls |-> x.j.cls, clsx |-> x.j.clsx, shr |-> x.j.shr, dlo |-> x.j.dlo, dhi |-> x.j.dhi, mx |-> x.j.mx, ls |-> x.ls] : x \in J},
      sf |-> SF # {}, mind |-> IF SF = {} THEN <<-1, 0>> ELSE DMinOf({x.j.dhi : x \in SF}),
      sfx |-> SFX # {}, mindx |-> IF SFX = {} THEN <<-1, 0>> ELSE DMinOf({x.j.dhi : x \in SFX}),
      feat |-> (IF FeatEmptyGlue(it) THEN {"emptyglue"} ELSE {}) \cup (IF FeatEmptyGlueDeact(it, l) THEN {"emptydeact"} ELSE {})
               \cup (IF Mode = "corpus" /\ OptViaDearer(P) THEN {"viadearer"} ELSE {}),
      complete |-> FALSE, allinf |-> FALSE, sshr |-> FALSE, noshr |-> FALSE, tstar |-> <<1, 0>>]

\* ---- quantised observations (trace validation, Layout): logged lengths are within h/2 of the real ones -----------
RQ == 1000      \* reported ratios are logged times RQ
\* slack of a sum of k logged lengths (each within h/2)
Slack(k, h) == (k * h + 1) \div 2
FloorDiv(a, b) == a \div b                  \* b > 0
CeilDivS(a, b) == 0 - ((0 - a) \div b)      \* b > 0

\* Interval [lo, hi] (times RQ) that contains the ratio of a line with logged sums L, Y, Z, target w, slack e on the
\* sums and e + h on w - L.  def = FALSE: no information (ratio undefined or the line fits within the slack).
RatioBox(w, L, Y, Z, e, h) ==
  LET n == w - L  en == e + h IN
  IF n - en > 0 THEN (IF Y - e > 0 THEN [def |-> TRUE, lo |-> FloorDiv(RQ * (n - en), Y + e) - 1, hi |-> CeilDivS(RQ * (n + en), Y - e) + 1, un |-> FALSE]
                      ELSE [def |-> FALSE, lo |-> 0, hi |-> 0, un |-> (h = 0 /\ Y = 0)])
  ELSE IF n + en < 0 THEN (IF Z - e > 0 THEN [def |-> TRUE, lo |-> FloorDiv(RQ * (n - en), Z - e) - 1, hi |-> CeilDivS(RQ * (n + en), Z + e) + 1, un |-> FALSE]
                           ELSE [def |-> FALSE, lo |-> -1000000, hi |-> -1000000, un |-> (h = 0 /\ Z = 0)])
  ELSE IF h = 0 THEN [def |-> TRUE, lo |-> 0, hi |-> 0, un |-> FALSE]
  ELSE [def |-> FALSE, lo |-> 0, hi |-> 0, un |-> FALSE]
\* three-valued class of the line from the interval; margin of 2/RQ around the limits
BoxCls(w, L, Y, Z, e, h) ==
  IF h = 0 THEN LineCls(w, L, Y, Z)
  ELSE LET b == RatioBox(w, L, Y, Z, e, h) n == w - L en == e + h IN
       IF b.def THEN (IF b.lo >= 2 - RQ /\ b.hi <= Tol * RQ - 2 THEN "F"
                      ELSE IF b.hi < 0 - RQ - 2 \/ b.lo > Tol * RQ + 2 THEN "I" ELSE "B")
       ELSE IF n - en > 0 /\ Y + e <= 0 THEN "I"          \* surely short, surely no stretch
       ELSE IF n + en < 0 /\ Z + e <= 0 THEN "I"          \* surely long, surely no shrink
       ELSE "B"

\* ---- scenario space ----------------------------------------------------------------------------------
Boxes == {Box(w) : w \in {1, 2, 3, 5}} \cup (IF Alpha = "ext" THEN {Box(0)} ELSE {})
Glues == {Glue(1,1,1), Glue(1,0,0), Glue(2,1,0), Glue(1,-1,0), Glue(0,Inf,0)} \cup (IF Alpha = "ext" THEN {Glue(3,2,2)} ELSE {})
Pens  == {Pen(0,0,0), Pen(1,50,1), Pen(0,500,1), Pen(0,Inf,0), Pen(0,0-Inf,0)} \cup (IF Alpha = "ext" THEN {Pen(0,-30,0), Pen(2,0,1), Pen(1,0,0), Pen(2,50,0)} ELSE {})
Alphabet == Boxes \cup Glues \cup Pens
\* structural constraints of the library's item builder (text.GlyphsToItems): the list starts with a box; glue of
\* negative stretch only appears as the second half of the pair  Glue(.., +y, ..) Penalty Glue(.., -y, ..)
Structural(it) ==
  /\ IsBox(it[1])
  /\ \A i \in 1..Len(it) : (IsGlue(it[i]) /\ it[i][3] < 0) =>
        /\ i >= 3 /\ IsPen(it[i-1]) /\ ~IsForced(it[i-1]) /\ IsGlue(it[i-2]) /\ it[i-2][3] + it[i][3] >= 0
Free == [1..NFree -> Alphabet]
\* "para": paragraph-shaped lists (NFree words, some hyphenatable, separated by stretchable and shrinkable glue): many
\* breakings of nearly equal badness, where the flagged / fitness terms and the pruning by fitness class decide
ParaWords == {<<Box(4)>>, <<Box(5)>>, <<Box(7)>>, <<Box(3), Pen(0,50,1), Box(4)>>, <<Box(4), Pen(1,50,1), Box(5)>>}
ParaGlues == {<<Glue(3,2,1)>>, <<Glue(3,3,1)>>, <<Glue(4,3,2)>>, <<Glue(3,1,1)>>, <<Glue(5,4,2)>>}
ParaUnits == {w \o g : w \in ParaWords, g \in ParaGlues}
RECURSIVE FlatSeq(_)
FlatSeq(ss) == IF ss = <<>> THEN <<>> ELSE Head(ss) \o FlatSeq(Tail(ss))
ParaLists == {FlatSeq(f) : f \in RandomSubset(NRand, [1..NFree -> ParaUnits])}
Lists == IF Mode = "exh" THEN Free ELSE IF Mode = "rand" THEN RandomSubset(NRand, Free)
         ELSE IF Mode = "para" THEN ParaLists ELSE {}

\* "corpus": stored scenarios (items with their tail, width), one JSON record per line of kp_corpus.ndjson; those with
\* at most 9 optional breakpoints get the complete verdict (all breakings, relaxation clause), the others the path verdict
Corpus == ndJsonDeserialize("kp_corpus.ndjson")
Init == /\ IF Mode = "corpus" THEN \E i \in 1..Len(Corpus) : items = Corpus[i].items /\ width = Corpus[i].width
           ELSE /\ items \in {f \o TailItems : f \in {g \in Lists : Structural(g)}}
                /\ width \in MinW..MaxW
        /\ ph = 0 /\ lt = <<>>
Build == ph = 0 /\ ph' = 1 /\ lt' = (IF Mode = "para" \/ (Mode = "corpus" /\ ~SmallEnough(items)) THEN <<>> ELSE LineTable(items, width)) /\ UNCHANGED <<items, width>>
Next == Build
Spec == Init /\ [][Next]_vars

EmitInv == ph = 1 => PrintT("@@" \o ToJson(IF Mode = "para" \/ (Mode = "corpus" /\ ~SmallEnough(items)) THEN VerdictP(items, width) ELSE Verdict(items, width, lt)))

\* ---- model-level sanity of the specification itself (MC) ------------------------------------------------
J0 == AllJudged(items, lt)
\* every enumerated breaking is a strictly increasing sequence of legal breakpoints containing the forced ones, ending at the end
BruteLegal == ph = 1 => \A j \in J0 : LET k == Len(j.b) IN
                 /\ k >= 1 /\ j.b[k] = Len(items) - 1
                 /\ \A i \in 1..k-1 : j.b[i] < j.b[i+1]
                 /\ IsBreaking(items, {j.b[i] + 1 : i \in 1..k})
\* the three feasibility classes partition, intervals are intervals, surely feasible lines have a defined ratio in [-1, Tol]
LinesSane == ph = 1 => \A p \in DOMAIN lt : LET r == lt[p] IN
                 /\ r.cls \in {"F", "B", "I"} /\ r.shr \in {"F", "B", "I"}
                 /\ DLe(r.dlo, r.dhi)
                 /\ (r.cls = "F" => /\ r.def /\ QLe(-1, 1, r.n, r.d) /\ QLe(r.n, r.d, Tol, 1)
                                    /\ r.fit # {} /\ r.shr = "F")
                 /\ (r.cls = "I" => ~r.def \/ QLt(r.n, r.d, -1, 1) \/ QLt(Tol, 1, r.n, r.d))
                 /\ (r.shr = "I" => r.cls = "I")
                 /\ (r.cls = "F" => r.clsx = "F") /\ (r.cls = "I" <=> r.clsx = "I")       \* the exact reading only decides borderline lines
                 /\ (r.clsx = "F" => r.def /\ QLe(-1, 1, r.n, r.d) /\ QLe(r.n, r.d, Tol, 1))
                 /\ (r.cls # "I" /\ r.def => LET m == Abs(r.n) IN
                        (25 * m > r.d /\ m <= 51) => /\ BadLo(r.n, r.d) * r.d * r.d * r.d <= 10000 * m * m * m
                                                      /\ 10000 * m * m * m <= BadHi(r.n, r.d) * r.d * r.d * r.d
                                                      /\ BadHi(r.n, r.d) - BadLo(r.n, r.d) <= 1)
\* the brute-force optimum is a legal, surely feasible breaking; needing no more stretch than Tol when one exists
OptSane == ph = 1 => LET SF == {j \in J0 : j.cls = "F"} v == Verdict(items, width, lt) IN
             /\ \A j \in J0 : DLe(j.dlo, j.dhi)
             /\ (SF # {} => /\ v.sf /\ \E j \in SF : j.dhi = v.mind /\ j.shr = "F" /\ QLeInf(j.mx, <<Tol, 1>>)
                            /\ v.sshr /\ QLeInf(v.tstar, <<Tol, 1>>))
             /\ (v.allinf => ~v.sf /\ \A j \in J0 : j.cls = "I") /\ (v.noshr => ~v.sshr /\ v.allinf)
             /\ (v.tstar[2] # 0 => \E j \in J0 : j.shr = "F" /\ j.mx = v.tstar)
\* the path enumeration of the not-infeasible breakings is exactly the brute-force filter
FeasComplete == ph = 1 => {j.b : j \in {i \in J0 : i.cls # "I"}} = {j.b : j \in NotInfJudged(items, lt)}
\* ... and so is the table-free scan used for long lists
PathsAgree == ph = 1 => {[b |-> j.b, cls |-> j.cls, dlo |-> j.dlo, dhi |-> j.dhi] : j \in NotInfJudged(items, lt)}
                        = {[b |-> j.b, cls |-> j.cls, dlo |-> j.dlo, dhi |-> j.dhi] : j \in {JudgePath(p) : p \in PathsFrom(items, width, 0)}}
\* ratios and classes are invariant under scaling all lengths by 3 (the library's embeddings rely on it)
Scale(it, s) == [i \in 1..Len(it) |-> <<it[i][1], s * it[i][2], s * it[i][3], s * it[i][4], it[i][5], it[i][6]>>]
ScaleInv == ph = 1 => LET T3 == LineTable(Scale(items, 3), 3 * width) IN
              \A p \in DOMAIN lt : /\ T3[p].cls = lt[p].cls /\ T3[p].shr = lt[p].shr /\ T3[p].fit = lt[p].fit
                                   /\ T3[p].n * lt[p].d = lt[p].n * T3[p].d
=============================================================================
