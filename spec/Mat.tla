------------------------------- MODULE Mat -------------------------------
(* Exact integer affine matrices <<a,b,c,d,e,f>> = [a b c; d e f; 0 0 1], the algebra        *)
(* tdewolff/canvas documents for canvas.Matrix: Mul composes right-to-left (the right operand *)
(* is applied to a point first), the builder methods m.Translate/Rotate/... post-multiply.    *)
EXTENDS Integers, Sequences

MId == <<1,0,0,0,1,0>>
MMul(m,q) == << m[1]*q[1]+m[2]*q[4], m[1]*q[2]+m[2]*q[5], m[1]*q[3]+m[2]*q[6]+m[3],
                m[4]*q[1]+m[5]*q[4], m[4]*q[2]+m[5]*q[5], m[4]*q[3]+m[5]*q[6]+m[6] >>
MDot(m,p) == << m[1]*p[1]+m[2]*p[2]+m[3], m[4]*p[1]+m[5]*p[2]+m[6] >>
MTr(x,y)  == <<1,0,x,0,1,y>>
MSc(sx,sy) == <<sx,0,0,0,sy,0>>
MSh(sx,sy) == <<1,sx,0,sy,1,0>>
MRot90(k) == CASE k % 4 = 0 -> MId
               [] k % 4 = 1 -> <<0,-1,0,1,0,0>>
               [] k % 4 = 2 -> <<-1,0,0,0,-1,0>>
               [] k % 4 = 3 -> <<0,1,0,-1,0,0>>
MAbout(g,x,y) == MMul(MMul(MTr(x,y), g), MTr(-x,-y))
\* reflection about the vertical line x = x2/2 (x2 is twice the coordinate so that half-integers are exact)
MRefXAbout2(x2) == <<-1,0,x2,0,1,0>>
MRefYAbout2(y2) == <<1,0,0,0,-1,y2>>
MDet(m) == m[1]*m[5] - m[2]*m[4]
MT(m) == <<m[1],m[4],m[3],m[2],m[5],m[6]>>
\* det * inverse (the adjugate with the translation), so that MMul(m, MAdj(m)) = det * MId on the linear part
MAdj(m) == << m[5], -m[2], -(m[5]*m[3] - m[2]*m[6]), -m[4], m[1], -(-m[4]*m[3] + m[1]*m[6]) >>
MAbs(x) == IF x < 0 THEN -x ELSE x
MMaxAbs(m) == LET s == {MAbs(m[i]) : i \in 1..6} IN CHOOSE v \in s : \A w \in s : w <= v
=============================================================================
