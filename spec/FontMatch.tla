----------------------------- MODULE FontMatch -----------------------------
(* X02 (extension beyond the listed properties): FontFamily.Face -- which loaded font a requested style is     *)
(* mapped to, and which faux styles make up for the difference.  The function is a case analysis over          *)
(* 18 styles x 3 variants x the set of loaded styles; it is transcribed here as a relation and every case of   *)
(* a bounded family of loaded sets is replayed into the real FontFamily (one font file loaded under different  *)
(* style labels).  Weights are in units of 0.005 x size (FontStyle.FauxWeight).                                 *)
(*                                                                                                            *)
(* Contract (doc comment "find closest font that matches requested style" + FauxWeight/FontStyle docs):        *)
(*  1. sub/superscript raise the requested weight by one step of the table Bump; Black has no heavier step     *)
(*     and gets 4 units (0.02) of faux bold instead;                                                           *)
(*  2. a loaded font with exactly the (bumped) style is used without faux styles;                              *)
(*  3. otherwise a loaded font at minimal distance  |fw(req) - fw(s)| + 4 [italic differs]  is used;           *)
(*     FauxBold = fw(req) - fw(chosen) (+ 4 for bumped Black); FauxItalic = +-0.3 (the test font has italic    *)
(*     angle 0) iff the italic bits differ, positive when italic was requested;                                *)
(*  4. Face is a function of its arguments: calling it again gives the same answer (Deterministic).            *)
EXTENDS Integers, FiniteSets, Sequences, TLC, Json

CONSTANTS MaxLoaded       \* loaded sets of 1..MaxLoaded styles are enumerated

Weights == {"Regular", "Thin", "ExtraLight", "Light", "Medium", "SemiBold", "Bold", "ExtraBold", "Black"}
\* the numeric value of the FontStyle constant (iota order) and the faux weight in units of 0.005
Code(w) == CASE w = "Regular" -> 0 [] w = "Thin" -> 1 [] w = "ExtraLight" -> 2 [] w = "Light" -> 3 [] w = "Medium" -> 4
             [] w = "SemiBold" -> 5 [] w = "Bold" -> 6 [] w = "ExtraBold" -> 7 [] w = "Black" -> 8
FW(w) == CASE w = "Thin" -> -4 [] w = "ExtraLight" -> -2 [] w = "Light" -> -1 [] w = "Regular" -> 0 [] w = "Medium" -> 1
           [] w = "SemiBold" -> 2 [] w = "Bold" -> 4 [] w = "ExtraBold" -> 6 [] w = "Black" -> 8
\* weight after the sub/superscript bump
Bump(w) == CASE w = "Thin" -> "ExtraLight" [] w = "ExtraLight" -> "Light" [] w = "Light" -> "Regular" [] w = "Regular" -> "SemiBold"
             [] w = "Medium" -> "SemiBold" [] w = "SemiBold" -> "Bold" [] w = "Bold" -> "ExtraBold" [] w = "ExtraBold" -> "Black"
             [] w = "Black" -> "Black"

Styles == [w : Weights, it : BOOLEAN]
Variants == {"normal", "sub", "super"}
StyleCode(s) == Code(s.w) + (IF s.it THEN 256 ELSE 0)
Abs(x) == IF x < 0 THEN -x ELSE x

Eff(req, variant) == IF variant = "normal" THEN req ELSE [w |-> Bump(req.w), it |-> req.it]
ExtraBold(req, variant) == IF variant # "normal" /\ req.w = "Black" THEN 4 ELSE 0
Dist(a, b) == Abs(FW(a.w) - FW(b.w)) + (IF a.it # b.it THEN 4 ELSE 0)

\* the set of allowed answers <<chosen style, faux bold (units), faux italic (-1, 0, 1 times 0.3)>>
Allowed(loaded, req, variant) ==
    LET e == Eff(req, variant) x == ExtraBold(req, variant) IN
    IF e \in loaded THEN {<<e, x, 0>>}
    ELSE LET m == CHOOSE d \in {Dist(e, s) : s \in loaded} : \A s \in loaded : d <= Dist(e, s)
         IN {<<s, x + FW(e.w) - FW(s.w), IF e.it = s.it THEN 0 ELSE IF e.it THEN 1 ELSE -1>> : s \in {t \in loaded : Dist(e, t) = m}}

\* ---- scenario generation: every loaded set of up to MaxLoaded styles x every request --------------------------
VARIABLES loaded, done
vars == <<loaded, done>>
Init == /\ loaded \in {L \in SUBSET Styles : Cardinality(L) >= 1 /\ Cardinality(L) <= MaxLoaded}
        /\ done = FALSE
Enc(s) == StyleCode(s)
Case(req, variant) == [req |-> Enc(req), variant |-> variant,
                       eff |-> Enc(Eff(req, variant)),
                       allowed |-> {<<Enc(a[1]), a[2], a[3]>> : a \in Allowed(loaded, req, variant)}]
Emit == /\ ~done /\ done' = TRUE /\ UNCHANGED loaded
        /\ PrintT("@@" \o ToJson([loaded |-> {Enc(s) : s \in loaded},
                                  cases |-> {Case(r, v) : r \in Styles, v \in Variants}]))
Spec == Init /\ [][Emit]_vars

\* ---- design-level laws of the relation (MC) --------------------------------------------------------------------
NonEmpty == \A r \in Styles, v \in Variants : Allowed(loaded, r, v) # {}
ExactWins == \A r \in Styles, v \in Variants : Eff(r, v) \in loaded => Allowed(loaded, r, v) = {<<Eff(r, v), ExtraBold(r, v), 0>>}
\* the rendered weight (chosen font's weight + faux bold) is always the requested effective weight (+ the Black bonus)
WeightPreserved == \A r \in Styles, v \in Variants : \A a \in Allowed(loaded, r, v) : FW(a[1].w) + a[2] = FW(Eff(r, v).w) + ExtraBold(r, v)
\* the rendered slant is the requested one: chosen italic xor faux italic
SlantPreserved == \A r \in Styles, v \in Variants : \A a \in Allowed(loaded, r, v) : (a[3] # 0) = (a[1].it # r.it)
\* a unique nearest font exists unless two loaded fonts are equally far: the number of answers never exceeds the number of fonts
Bounded == \A r \in Styles, v \in Variants : Cardinality(Allowed(loaded, r, v)) <= Cardinality(loaded)
=============================================================================
