------------------------------ MODULE Lattice ------------------------------
(* Exact integer ("lattice") plane geometry shared by all geometric modules.                     *)
(* Points are <<x,y>> with integer coordinates; a contour is a sequence of points that is        *)
(* implicitly closed; a path is a sequence of contours.  Everything is decided by signs of       *)
(* integer cross products: no tolerance, no floats.  TLC integers are 32 bit: callers keep       *)
(* coordinates <= 128 for the degree-4 expressions (DistLt) and <= 2^14 for degree 2.            *)
EXTENDS Integers, Sequences, FiniteSets

Abs(x) == IF x < 0 THEN -x ELSE x
Sgn(x) == IF x < 0 THEN -1 ELSE IF x > 0 THEN 1 ELSE 0
MinI(a, b) == IF a < b THEN a ELSE b
MaxI(a, b) == IF a < b THEN b ELSE a
SetMin(S) == CHOOSE v \in S : \A w \in S : v <= w
SetMax(S) == CHOOSE v \in S : \A w \in S : w <= v

Cross(a, b, s) == (b[1]-a[1])*(s[2]-a[2]) - (b[2]-a[2])*(s[1]-a[1])
DotP(a, b, s)  == (b[1]-a[1])*(s[1]-a[1]) + (b[2]-a[2])*(s[2]-a[2])
Len2(a, b)     == (b[1]-a[1])*(b[1]-a[1]) + (b[2]-a[2])*(b[2]-a[2])

\* s lies on the closed segment ab
OnSeg(a, b, s) == /\ Cross(a, b, s) = 0
                  /\ MinI(a[1], b[1]) <= s[1] /\ s[1] <= MaxI(a[1], b[1])
                  /\ MinI(a[2], b[2]) <= s[2] /\ s[2] <= MaxI(a[2], b[2])

\* contribution of the directed edge ab to the winding number around s (half-open rule on y; s not on the edge)
EdgeW(a, b, s) == IF a[2] <= s[2] /\ b[2] > s[2] /\ Cross(a, b, s) > 0 THEN 1
                  ELSE IF a[2] > s[2] /\ b[2] <= s[2] /\ Cross(a, b, s) < 0 THEN -1 ELSE 0

Nxt(c, i) == c[(i % Len(c)) + 1]

RECURSIVE WindC_(_, _, _)
WindC_(c, s, i) == IF i = 0 THEN 0 ELSE EdgeW(c[i], Nxt(c, i), s) + WindC_(c, s, i - 1)
WindContour(c, s) == WindC_(c, s, Len(c))
RECURSIVE WindP_(_, _, _)
WindP_(p, s, i) == IF i = 0 THEN 0 ELSE WindContour(p[i], s) + WindP_(p, s, i - 1)
Wind(p, s) == WindP_(p, s, Len(p))

OnContour(c, s) == \E i \in 1..Len(c) : OnSeg(c[i], Nxt(c, i), s)
OnPath(p, s)    == \E k \in 1..Len(p) : OnContour(p[k], s)

\* fill rules of canvas.FillRule: 0 NonZero, 1 EvenOdd, 2 Positive, 3 Negative
Fills(rule, w) == CASE rule = 0 -> w # 0
                    [] rule = 1 -> w % 2 # 0
                    [] rule = 2 -> w > 0
                    [] rule = 3 -> w < 0

RECURSIVE Area2_(_, _)
Area2_(c, i) == IF i = 0 THEN 0 ELSE (c[i][1] * Nxt(c, i)[2] - Nxt(c, i)[1] * c[i][2]) + Area2_(c, i - 1)
Area2(c) == Area2_(c, Len(c))       \* twice the signed area (positive = counter-clockwise)

ScaleC(k, c) == [i \in 1..Len(c) |-> <<k * c[i][1], k * c[i][2]>>]
ScaleP(k, p) == [j \in 1..Len(p) |-> ScaleC(k, p[j])]

\* proper crossing or touching of closed segments ab and cd (any common point)
SegsMeet(a, b, c, d) ==
    LET d1 == Sgn(Cross(a, b, c)) d2 == Sgn(Cross(a, b, d)) d3 == Sgn(Cross(c, d, a)) d4 == Sgn(Cross(c, d, b))
    IN \/ (d1 * d2 < 0 /\ d3 * d4 < 0)
       \/ OnSeg(a, b, c) \/ OnSeg(a, b, d) \/ OnSeg(c, d, a) \/ OnSeg(c, d, b)
SegsCrossProperly(a, b, c, d) ==
    Sgn(Cross(a, b, c)) * Sgn(Cross(a, b, d)) < 0 /\ Sgn(Cross(c, d, a)) * Sgn(Cross(c, d, b)) < 0

\* integer square roots by bisection: ISqrtLo(n)^2 <= n < (ISqrtLo(n)+1)^2
RECURSIVE ISq_(_, _, _)
ISq_(n, lo, hi) == IF hi - lo <= 1 THEN lo
                   ELSE LET m == (lo + hi) \div 2 IN IF m * m <= n THEN ISq_(n, m, hi) ELSE ISq_(n, lo, m)
ISqrtLo(n) == IF n <= 0 THEN 0 ELSE ISq_(n, 0, 46341)
ISqrtHi(n) == LET r == ISqrtLo(n) IN IF r * r = n THEN r ELSE r + 1

\* squared-distance comparisons between point s and the closed segment ab, all scaled: dist(s,ab)^2 * Len2 vs r2 * Len2
\* DistSegLt(a,b,s,r2): dist(s, ab)^2 < r2   (r2 = squared radius, integer)
DistSegLt(a, b, s, r2) ==
    IF a = b THEN Len2(a, s) < r2
    ELSE LET t == DotP(a, b, s) l == Len2(a, b) IN
         IF t <= 0 THEN Len2(a, s) < r2
         ELSE IF t >= l THEN Len2(b, s) < r2
         ELSE Cross(a, b, s) * Cross(a, b, s) < r2 * l
DistSegGt(a, b, s, r2) ==
    IF a = b THEN Len2(a, s) > r2
    ELSE LET t == DotP(a, b, s) l == Len2(a, b) IN
         IF t <= 0 THEN Len2(a, s) > r2
         ELSE IF t >= l THEN Len2(b, s) > r2
         ELSE Cross(a, b, s) * Cross(a, b, s) > r2 * l
=============================================================================
