--------------------------- MODULE Trace_Builder ---------------------------
(* Code -> spec for the builder machine.  Every event of the trace is one execution of the real       *)
(* canvas.Path builder recorded by harness/internal/props/c10 (and by c11 for parsed paths):           *)
(*    <<id, hist, sm>> hist = the builder calls that were made (spec alphabet, lattice integers),      *)
(*                            each call <<opcode, args...>> (arrays parse 10x faster than JSON objects) *)
(*                     sm   = Path.Data() afterwards, decoded by the independent oracle and projected  *)
(*                            back onto the lattice (see the stream format in Builder.tla).            *)
(* The event is consumed by running the specification's own Apply over the logged calls; the stream   *)
(* is then judged by the specification: well-formedness clauses and piece-by-piece equality of the     *)
(* normal forms.  Because the unchanged library has known deviations, a deviating event does not stop *)
(* the validation: its verdict is printed (one line per deviating event) and the driver turns it into *)
(* a reproduced mismatch with the deviation name as signature.  Events are independent, so they are    *)
(* consumed in NChunks parallel branches: root -> chunk -> event.  All events were consumed iff the    *)
(* number of distinct states is 1 + NChunks + Len(Trace) (checked by the driver).                      *)
EXTENDS Builder
CONSTANT NChunks
Trace == ndJsonDeserialize("trace_builder.ndjson")
VARIABLE l            \* 0 root | -k chunk k | i > 0 event i consumed
tvars == <<vars, l>>
N == Len(Trace)
Lo(k) == ((k - 1) * N) \div NChunks + 1
Hi(k) == (k * N) \div NChunks

OpNames == <<"MoveTo", "LineTo", "QuadTo", "CubeTo", "ArcTo", "Arc", "Close", "Append", "Join">>
ShapeNames == <<"Shape:Line", "Shape:Rectangle", "Shape:BeveledRectangle", "Shape:RoundedRectangle", "Shape:Circle", "Shape:Ellipse", "Shape:Grid",
                "Shape:Arc", "Shape:EllipticalArc", "Shape:Triangle", "Shape:RegularPolygon", "Shape:RegularStarPolygon", "Shape:StarPolygon">>
\* 200 "RoundTrip": sm = stream of p, <<0>>, stream of ParseSVGPath(p.String())   (C11: classify a failed round trip)
\* 201 "Free": no expectation about the geometry, only well-formedness (C11: paths parsed from arbitrary strings)
OpName(k) == IF k = 200 THEN "RoundTrip" ELSE IF k = 201 THEN "Free" ELSE IF k > 100 THEN ShapeNames[k - 100] ELSE OpNames[k]
IsRoundTrip(h) == Len(h) = 1 /\ h[1].op = "RoundTrip"
IsFree(h) == Len(h) = 1 /\ h[1].op = "Free"
MarkAt(sm) == CHOOSE i \in 1..Len(sm) : sm[i] = <<0>>
RoundTripVerdict(sm) ==
  LET k == MarkAt(sm) a == SubSeq(sm, 1, k - 1) b == SubSeq(sm, k + 1, Len(sm)) IN
  IF a = b THEN "ok"
  ELSE IF NF(StreamSubs(a)) = NF(StreamSubs(b)) /\ Len(b) < Len(a) THEN "remerged"      \* same geometry, collinear lines merged again
  ELSE IF NF(StreamSubs(a)) = NF(StreamSubs(b)) THEN "same-geometry-other-stream"
  ELSE "differs"
HistOf(h) == [i \in 1..Len(h) |-> Call(OpName(h[i][1]), SubSeq(h[i], 2, Len(h[i])))]
\* off = 1: some decoded value that should be a lattice value is not (the stream then holds the rounded values)
EvOf(i) == [id |-> Trace[i][1], hist |-> HistOf(Trace[i][2]), sm |-> Trace[i][3], off |-> Trace[i][4]]

Verdict(ev, m) ==
  LET wf == IF IsRoundTrip(ev.hist) THEN {} ELSE WFViolations(ev.sm)
      g0 == IF IsRoundTrip(ev.hist) THEN RoundTripVerdict(ev.sm)
            ELSE IF IsFree(ev.hist) THEN "free"
            ELSE IF IsShape(ev.hist) THEN ShapeVerdict(ev.hist[1], NF(StreamSubs(ev.sm)))
            ELSE IF NF(StreamSubs(ev.sm)) = NF(m.subs) THEN "ok" ELSE GeomVerdict(ev.hist, ev.sm)
      g  == IF ev.off = 1 /\ g0 # "free" THEN "offgrid" ELSE g0 IN
  [id |-> ev.id, wf |-> wf, geom |-> g, exp |-> SubsJson(NF(m.subs)), pen |-> m.pen]
Judge(v) == (v.wf # {} \/ v.geom \notin {"ok", "free"}) => PrintT("@@" \o ToJson(v))

TInit == l = 0 /\ st = InitSt /\ hist = <<>>
TChunk == /\ l = 0 /\ l' \in {0 - k : k \in 1..NChunks} /\ UNCHANGED vars
TEvent == /\ l < 0
          /\ \E i \in Lo(0 - l)..Hi(0 - l) :
               LET ev == EvOf(i) IN
               /\ l' = i
               /\ hist' = ev.hist
               /\ st' = Meaning(ev.hist, {})                  \* the spec's actions applied to the logged calls
               /\ Judge(Verdict(ev, st'))
TNext == TChunk \/ TEvent
TSpec == TInit /\ [][TNext]_tvars
=============================================================================
