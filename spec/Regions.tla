------------------------------ MODULE Regions ------------------------------
(* X01 (extension): region / curve semantics of the operations of canvas that no listed property covers:          *)
(*   clip  : Path.Clip (line clipping against a rectangle: "removing sections") and Path.FastClip (removal of     *)
(*           segments completely outside; nothing inside the rectangle changes)                                  *)
(*   poly  : Polyline (FillCount, Interior, Area, Centroid, Closed, ToPath)                                      *)
(*   tri   : Path.Triangulate (triangles that fill a simple polygon)                                             *)
(*   tile  : Path.Tile(clip, cell), TileRectangle and the cell constructors (union of lattice translates)        *)
(*   snap  : Path.Gridsnap(spacing)                                                                              *)
(*   vw    : Path.SimplifyVisvalingamWhyatt(tolerance) as an exact, non-deterministic (ties) state machine       *)
(*   hatch : HatchPattern.Tile of NewLineHatch (stripes of a thickness at a distance, angle 0 / 90)              *)
(* Everything is exact integer geometry (Lattice.tla).  Lattice point (i,j) is (S i, S j) with S = 120, so that  *)
(* all sample points, half-unit rectangle coordinates and every intersection of a lattice edge (|dx|,|dy| <= 6)  *)
(* with a half-unit line are integers.  The module is used as                                                    *)
(*  - a scenario generator: Init chooses the input, Emit prints it with every expected observation               *)
(*  - a model (MC): the invariant Laws states laws the expected observations must satisfy among themselves       *)
(*    (Clip vs. the And cells of the region algebra, idempotence, tiling periodicity and additivity, ...)        *)
(* Cells are three-valued: 0 = must be unfilled, 1 = must be filled, 2 = free (on a boundary / undocumented).    *)
EXTENDS Lattice, TLC, Json, Randomization

CONSTANTS What,     \* "clip" | "poly" | "tri" | "tile" | "snap" | "vw" | "hatch"
          N,        \* lattice 0..N (sample cells cover it)
          K,        \* vertices per contour
          NC,       \* contours per path (1 or 2)
          Mode,     \* "all" | "random"
          Num,      \* RandomSubset size for the contours
          A1, A2, A3 \* family specific (see the Choice sets)

S == 120
H == 60
Pt == (0..N) \X (0..N)
Offs == << <<40, 24>>, <<88, 64>>, <<32, 96>> >>
NS == N * N * 3
Sample(k) == LET c == (k - 1) \div 3 o == Offs[((k - 1) % 3) + 1]
             IN << S * (c % N) + o[1], S * (c \div N) + o[2] >>
B(x) == IF x THEN 1 ELSE 0
FREE == 99
WVec(path) == [k \in 1..NS |-> IF OnPath(path, Sample(k)) THEN FREE ELSE Wind(path, Sample(k))]

VARIABLES p,        \* the path: sequence of contours (sequences of lattice points)
          a,        \* the other arguments (record, depends on What)
          done
vars == <<p, a, done>>

\* contours have 3..K vertices (tile, hatch: exactly K)
KMin == IF What \in {"tile", "hatch"} THEN K ELSE 3
ContoursK(k) == [1..k -> Pt]
Pick1 == UNION {IF Mode = "all" THEN ContoursK(k) ELSE RandomSubset(Num, ContoursK(k)) : k \in KMin..K}
Pick2 == UNION {RandomSubset(2, ContoursK(k)) : k \in KMin..K}
PathChoice == IF NC = 1 THEN {<<c>> : c \in Pick1} ELSE {<<c, d>> : c \in Pick1, d \in Pick2}

\* ---- contour predicates ----------------------------------------------------------------------------------------
NE(c, open) == IF open THEN Len(c) - 1 ELSE Len(c)                    \* number of edges
NoDup(c, open) == \A i \in 1..NE(c, open) : c[i] # Nxt(c, i)            \* no zero-length edge (canvas never stores one)
Prv(c, i) == c[IF i = 1 THEN Len(c) ELSE i - 1]
\* vertex i is passed straight through (the path builder would have merged the two edges)
Straight(c, i) == Cross(Prv(c, i), c[i], Nxt(c, i)) = 0 /\ DotP(c[i], Prv(c, i), Nxt(c, i)) < 0
\* vertex i folds back onto the incoming edge (spike)
FoldBack(c, i) == Cross(Prv(c, i), c[i], Nxt(c, i)) = 0 /\ DotP(c[i], Prv(c, i), Nxt(c, i)) > 0
Distinct(c) == \A i, j \in 1..Len(c) : i # j => c[i] # c[j]
\* simple polygon: distinct vertices, no spike, non-adjacent edges disjoint
Simple(c) == /\ Len(c) >= 3 /\ Distinct(c)
             /\ \A i \in 1..Len(c) : ~FoldBack(c, i)
             /\ \A i, j \in 1..Len(c) : (i < j /\ j # i + 1 /\ ~(i = 1 /\ j = Len(c))) => ~SegsMeet(c[i], Nxt(c, i), c[j], Nxt(c, j))
HasStraight(c) == \E i \in 1..Len(c) : Straight(c, i)
BBoxC(c) == LET xs == {c[i][1] : i \in 1..Len(c)} ys == {c[i][2] : i \in 1..Len(c)}
            IN <<SetMin(xs), SetMin(ys), SetMax(xs), SetMax(ys)>>

\* =================================================================================================================
\* clip: Path.Clip / Path.FastClip.   a = [rect |-> <<x0,y0,x1,y1>> in HALF lattice units, open |-> first contour open]
\* =================================================================================================================
RCoord == (0 - 1)..(2 * N + 1)
RectSet == {r \in RCoord \X RCoord \X RCoord \X RCoord : r[1] < r[3] /\ r[2] < r[4]}
RectS(r) == <<H * r[1], H * r[2], H * r[3], H * r[4]>>                 \* scaled rectangle
InC(R, q) == R[1] <= q[1] /\ q[1] <= R[3] /\ R[2] <= q[2] /\ q[2] <= R[4]
InO(R, q) == R[1] < q[1] /\ q[1] < R[3] /\ R[2] < q[2] /\ q[2] < R[4]
Between(x, u, v) == MinI(u, v) < x /\ x < MaxI(u, v)
DivX(num, den) == IF den < 0 THEN (0 - num) \div (0 - den) ELSE num \div den      \* exact by the choice of S
CutX(e1, e2, X) == <<X, e1[2] + DivX((e2[2] - e1[2]) * (X - e1[1]), e2[1] - e1[1])>>
CutY(e1, e2, Y) == <<e1[1] + DivX((e2[1] - e1[1]) * (Y - e1[2]), e2[2] - e1[2]), Y>>
Cands(R, e1, e2) == {e1, e2} \cup {CutX(e1, e2, X) : X \in {x \in {R[1], R[3]} : Between(x, e1[1], e2[1])}}
                             \cup {CutY(e1, e2, Y) : Y \in {y \in {R[2], R[4]} : Between(y, e1[2], e2[2])}}
OnRectLine(R, u, v) == (u[1] = v[1] /\ u[1] \in {R[1], R[3]}) \/ (u[2] = v[2] /\ u[2] \in {R[2], R[4]})
None == [st |-> 0, u |-> <<0, 0>>, v |-> <<0, 0>>, su |-> FALSE, ev |-> FALSE]
\* the part of the directed segment e1 e2 inside the closed rectangle R: st 0 = nothing, 1 = a segment u v that meets
\* the interior of R, 2 = optional (a single touching point, or a stretch along the rectangle's boundary);
\* su / ev: the piece starts / ends at the segment's own start / end point (that end is inside R)
ClipSeg(R, e1, e2) ==
    LET C == {q \in Cands(R, e1, e2) : InC(R, q)} IN
    IF C = {} THEN None
    ELSE LET u == CHOOSE q \in C : \A w \in C : DotP(e1, e2, q) <= DotP(e1, e2, w)
             v == CHOOSE q \in C : \A w \in C : DotP(e1, e2, q) >= DotP(e1, e2, w)
         IN [st |-> IF u = v \/ OnRectLine(R, u, v) THEN 2 ELSE 1, u |-> u, v |-> v, su |-> u = e1, ev |-> v = e2]
Segs(R, c, open) == [i \in 1..NE(c, open) |-> ClipSeg(R, c[i], Nxt(c, i))]

\* pieces: maximal chains of consecutive clipped edges that join at a vertex inside the rectangle (two pieces that
\* merely meet on the boundary, the vertex between them being outside, stay apart)
RECURSIVE Scan(_, _, _, _)
Scan(sg, i, cur, acc) ==
    IF i > Len(sg) THEN (IF cur = <<>> THEN acc ELSE Append(acc, cur))
    ELSE IF sg[i].st = 0 THEN Scan(sg, i + 1, <<>>, IF cur = <<>> THEN acc ELSE Append(acc, cur))
    ELSE IF cur # <<>> /\ sg[i - 1].ev /\ sg[i].su THEN Scan(sg, i + 1, Append(cur, sg[i].v), acc)
    ELSE Scan(sg, i + 1, <<sg[i].u, sg[i].v>>, IF cur = <<>> THEN acc ELSE Append(acc, cur))
AllIn(R, c) == \A i \in 1..Len(c) : InC(R, c[i])
PiecesC(R, c, open) ==
    IF ~open /\ AllIn(R, c) THEN << [pts |-> c, closed |-> TRUE] >>
    ELSE LET sg == Segs(R, c, open)
             raw == Scan(sg, 1, <<>>, <<>>)
             n == Len(raw)
             joined == IF ~open /\ n >= 2 /\ sg[1].st # 0 /\ sg[1].su /\ sg[Len(sg)].st # 0 /\ sg[Len(sg)].ev
                       THEN <<raw[n] \o Tail(raw[1])>> \o SubSeq(raw, 2, n - 1) ELSE raw
         IN [k \in 1..Len(joined) |-> [pts |-> joined[k], closed |-> FALSE]]
\* generic position w.r.t. the rectangle: no vertex on its boundary, no edge touching it in a point or running along it
GenericC(R, c, open) == /\ \A i \in 1..Len(c) : InO(R, c[i]) \/ ~InC(R, c[i])
                        /\ \A i \in 1..NE(c, open) : ClipSeg(R, c[i], Nxt(c, i)).st # 2
\* feature: the path leaves the rectangle on one edge and re-enters on the very next one (the vertex between is outside)
ExitReenterC(R, c, open) == \E i \in 1..NE(c, open) : /\ (~open \/ i + 1 <= NE(c, open))
                                                      /\ ClipSeg(R, c[i], Nxt(c, i)).st # 0
                                                      /\ ClipSeg(R, Nxt(c, i), Nxt(c, i + 1)).st # 0
                                                      /\ ~InC(R, Nxt(c, i))
\* feature: the closing edge of a closed contour is (partly) inside and so is an earlier edge, but the two sections do
\* not meet at the start vertex (it is outside, or the first edge is): joining "the last section with the first" is wrong
WrapJoinC(R, c, open) == LET sg == Segs(R, c, open) n == Len(sg) IN
    /\ ~open /\ sg[n].st # 0 /\ (\E f \in 1..(n - 1) : sg[f].st # 0)
    /\ ~(sg[n].ev /\ sg[1].st # 0 /\ sg[1].su)
MeetsInterior(R, e1, e2) == e1 # e2 /\ ClipSeg(R, e1, e2).st = 1
OpenOf(k) == a.open /\ k = 1
SP == ScaleP(S, p)
ClipScenario ==
    LET R == RectS(a.rect)
        wp == WVec(SP)
    IN [kind |-> "clip", p |-> p, rect |-> a.rect, open |-> a.open,
        segs |-> [k \in 1..Len(p) |-> Segs(R, SP[k], OpenOf(k))],
        generic |-> \A k \in 1..Len(p) : GenericC(R, SP[k], OpenOf(k)),
        pieces |-> [k \in 1..Len(p) |-> PiecesC(R, SP[k], OpenOf(k))],
        keep |-> [k \in 1..Len(p) |-> [i \in 1..NE(p[k], OpenOf(k)) |-> MeetsInterior(R, SP[k][i], Nxt(SP[k], i))]],
        chord |-> [k \in 1..Len(p) |-> [i \in 1..Len(p[k]) |-> [j \in 1..Len(p[k]) |-> ~MeetsInterior(R, SP[k][i], SP[k][j])]]],
        wp |-> wp, inr |-> [k \in 1..NS |-> B(InO(R, Sample(k)))],
        f |-> [xr |-> \E k \in 1..Len(p) : ExitReenterC(R, SP[k], OpenOf(k)),
               wj |-> \E k \in 1..Len(p) : WrapJoinC(R, SP[k], OpenOf(k)),
               allin |-> \A k \in 1..Len(p) : AllIn(R, SP[k]),
               allpart |-> \E k \in 1..Len(p) : ~OpenOf(k) /\ ~AllIn(R, SP[k]) /\ \A i \in 1..Len(p[k]) : ClipSeg(R, SP[k][i], Nxt(SP[k], i)).st # 0,
               allout |-> \A k \in 1..Len(p) : \A i \in 1..NE(p[k], OpenOf(k)) : ClipSeg(R, SP[k][i], Nxt(SP[k], i)).st = 0]]
ClipValid == \A k \in 1..Len(p) : NoDup(p[k], OpenOf(k)) /\ (OpenOf(k) => p[k][1] # p[k][Len(p[k])])

\* laws (MC): every clipped piece lies on its edge and inside R; clipping is idempotent, symmetric under reversal and
\* monotone in R; the samples inside R filled by P are exactly the And cells of the region algebra with R as operand Q
RectContour(R) == << <<R[1], R[2]>>, <<R[3], R[2]>>, <<R[3], R[4]>>, <<R[1], R[4]>> >>
ClipLaws ==
    LET R == RectS(a.rect)
        R2 == <<R[1] - H, R[2], R[3] + H, R[4] + S>>            \* a larger rectangle
    IN /\ \A k \in 1..Len(p) : \A i \in 1..NE(p[k], OpenOf(k)) :
            LET e1 == SP[k][i] e2 == Nxt(SP[k], i) s == ClipSeg(R, e1, e2) t == ClipSeg(R, e2, e1) big == ClipSeg(R2, e1, e2) IN
            /\ (s.st # 0 => /\ OnSeg(e1, e2, s.u) /\ OnSeg(e1, e2, s.v) /\ InC(R, s.u) /\ InC(R, s.v)
                            /\ DotP(e1, e2, s.u) <= DotP(e1, e2, s.v)
                            /\ ClipSeg(R, s.u, s.v).u = s.u /\ ClipSeg(R, s.u, s.v).v = s.v          \* idempotent
                            /\ big.st # 0 /\ OnSeg(big.u, big.v, s.u) /\ OnSeg(big.u, big.v, s.v))  \* monotone
            /\ t.st = s.st /\ (s.st # 0 => t.u = s.v /\ t.v = s.u)                                   \* reversal
            /\ (s.st = 0 => ~InC(R, e1) /\ ~InC(R, e2))
            /\ (InC(R, e1) /\ s.st # 0 => s.u = e1) /\ (InC(R, e2) /\ s.st # 0 => s.v = e2)
            /\ (MeetsInterior(R, e1, e2) => InO(<<2 * R[1], 2 * R[2], 2 * R[3], 2 * R[4]>>, <<s.u[1] + s.v[1], s.u[2] + s.v[2]>>))   \* its midpoint is interior
       /\ \A k \in 1..NS : LET s == Sample(k) wr == Wind(<<RectContour(R)>>, s) IN
            /\ ~OnContour(RectContour(R), s)                       \* samples never lie on half-unit lines
            /\ (wr # 0) = InO(R, s)                                \* the rectangle as operand Q of the region algebra
            /\ (Wind(SP, s) # 0 /\ wr # 0) = (Wind(SP, s) # 0 /\ InO(R, s))
       /\ \A k \in 1..Len(p) : LET pc == PiecesC(R, SP[k], OpenOf(k)) IN
            /\ (AllIn(R, SP[k]) /\ ~OpenOf(k) => Len(pc) = 1 /\ pc[1].closed)
            /\ \A j \in 1..Len(pc) : \A i \in 1..Len(pc[j].pts) : InC(R, pc[j].pts[i]) /\ OnContour(SP[k], pc[j].pts[i])

\* =================================================================================================================
\* poly: Polyline.   a = [open |-> BOOLEAN]   (p has one contour)
\* =================================================================================================================
RECURSIVE CenX_(_, _, _)
CenX_(c, d, i) == IF i = 0 THEN 0
                  ELSE (c[i][d] + Nxt(c, i)[d]) * (c[i][1] * Nxt(c, i)[2] - Nxt(c, i)[1] * c[i][2]) + CenX_(c, d, i - 1)
\* centroid = (CenNum[1], CenNum[2]) / (3 * Area2)
CenNum(c) == <<CenX_(c, 1, Len(c)), CenX_(c, 2, Len(c))>>
PolyScenario ==
    LET c == p[1] IN
    [kind |-> "poly", p |-> p, open |-> a.open,
     fc |-> WVec(SP), area2 |-> Area2(c), cen |-> CenNum(c),
     fills |-> [r \in 1..4 |-> [k \in 1..NS |-> IF WVec(SP)[k] = FREE THEN 2 ELSE B(Fills(r - 1, WVec(SP)[k]))]],
     corner |-> [i \in 1..Len(c) |-> (a.open /\ i \in {1, Len(c)}) \/ ~Straight(c, i)],
     f |-> [simple |-> Simple(c), cw |-> Area2(c) < 0]]
PolyValid == NoDup(p[1], a.open) /\ (a.open => p[1][1] # p[1][Len(p[1])])
Rev(c) == [i \in 1..Len(c) |-> c[Len(c) + 1 - i]]
Shift(c, t) == [i \in 1..Len(c) |-> <<c[i][1] + t[1], c[i][2] + t[2]>>]
PolyLaws ==
    LET c == p[1] t == <<3, 5>> IN
    /\ Area2(Rev(c)) = 0 - Area2(c) /\ CenNum(Rev(c))[1] = 0 - CenNum(c)[1] /\ CenNum(Rev(c))[2] = 0 - CenNum(c)[2]
    /\ Area2(Shift(c, t)) = Area2(c)
    /\ CenNum(Shift(c, t))[1] = CenNum(c)[1] + 3 * Area2(c) * t[1]       \* the centroid moves with the polygon
    /\ CenNum(Shift(c, t))[2] = CenNum(c)[2] + 3 * Area2(c) * t[2]
    /\ (Simple(c) => \A k \in 1..NS : LET w == WVec(SP)[k] IN w = FREE \/ w = 0 \/ w = Sgn(Area2(c)))
    /\ (Simple(c) => Area2(c) # 0)
    \* the centroid of a simple polygon lies in its bounding box:  min * 3A <= num <= max * 3A  (sign of A)
    /\ (Simple(c) => LET bb == BBoxC(c) s == Sgn(Area2(c)) d == 3 * Area2(c) * s IN
            /\ bb[1] * d <= CenNum(c)[1] * s /\ CenNum(c)[1] * s <= bb[3] * d
            /\ bb[2] * d <= CenNum(c)[2] * s /\ CenNum(c)[2] * s <= bb[4] * d)

\* =================================================================================================================
\* tri: Path.Triangulate on a simple polygon
\* =================================================================================================================
OnAnyChord(c, s) == \E i, j \in 1..Len(c) : i < j /\ OnSeg(c[i], c[j], s)
TriCells == LET c == SP[1] IN [k \in 1..NS |-> IF OnAnyChord(c, Sample(k)) THEN 2 ELSE B(WindContour(c, Sample(k)) # 0)]
TriScenario == [kind |-> "tri", p |-> p, cells |-> TriCells, area2 |-> Abs(Area2(p[1])), f |-> [straight |-> HasStraight(p[1])]]
TriValid == Simple(p[1])
\* an ear: a convex corner whose triangle contains no other vertex (two-ears theorem: a triangulation with n-2
\* triangles on the polygon's own vertices exists)
InTriClosed(x, y, z, q) == LET d1 == Sgn(Cross(x, y, q)) d2 == Sgn(Cross(y, z, q)) d3 == Sgn(Cross(z, x, q))
                           IN ~(\E d \in {d1, d2, d3} : d < 0) \/ ~(\E d \in {d1, d2, d3} : d > 0)
Ear(c, i) == LET x == Prv(c, i) y == c[i] z == Nxt(c, i) IN
             /\ Cross(x, y, z) * Sgn(Area2(c)) > 0
             /\ \A j \in 1..Len(c) : c[j] \in {x, y, z} \/ ~InTriClosed(x, y, z, c[j])
TriLaws == LET c == p[1] IN
    /\ Area2(c) # 0
    /\ \E i \in 1..Len(c) : Ear(c, i)
    /\ \A k \in 1..NS : TriCells[k] = 1 => WVec(SP)[k] = Sgn(Area2(c))

\* =================================================================================================================
\* tile: Path.Tile(clip, cell) / TileRectangle.  p = <<P>> on the lattice 0..A1;
\* a = [u, v |-> basis vectors of the cell, clip |-> contour on 0..N]
\* =================================================================================================================
PtP == (0..A1) \X (0..A1)
Basis == (0 - A2)..A2
Cells == {uv \in (Basis \X Basis) \X (Basis \X Basis) : uv[1][1] * uv[2][2] - uv[1][2] * uv[2][1] # 0}
IntRects == {r \in (0..N) \X (0..N) \X (0..N) \X (0..N) : r[1] < r[3] /\ r[2] < r[4]}
Det == a.u[1] * a.v[2] - a.u[2] * a.v[1]
InLat(t) == LET i == a.v[2] * t[1] - a.v[1] * t[2] j == a.u[1] * t[2] - a.u[2] * t[1]
            IN i % Abs(Det) = 0 /\ j % Abs(Det) = 0
LatIJ(t) == <<DivX(a.v[2] * t[1] - a.v[1] * t[2], Det), DivX(a.u[1] * t[2] - a.u[2] * t[1], Det)>>
\* translations (lattice units) whose copy of P's bounding box 0..A1 can contain the scaled point s
TransAt(s) == {t \in ((s[1] \div S) - A1..(s[1] \div S)) \X ((s[2] \div S) - A1..(s[2] \div S)) : InLat(t)}
Back(s, t) == <<s[1] - S * t[1], s[2] - S * t[2]>>
RECURSIVE SumW(_, _)
SumW(T, s) == IF T = {} THEN 0 ELSE LET t == CHOOSE x \in T : TRUE IN Wind(SP, Back(s, t)) + SumW(T \ {t}, s)
TileCell(s) ==
    LET T == TransAt(s) clip == ScaleC(S, a.clip) IN
    IF OnContour(clip, s) \/ \E t \in T : OnPath(SP, Back(s, t)) THEN 2
    ELSE IF WindContour(clip, s) = 0 THEN 0
    ELSE IF \A t \in T : Wind(SP, Back(s, t)) = 0 THEN 0
    ELSE IF SumW(T, s) # 0 THEN 1 ELSE 2
\* TileRectangle(cell, dst = bbox(clip), src = bbox(P)): positions (i,j) whose copy of src overlaps dst
TRPos ==
    LET dst == BBoxC(a.clip) src == BBoxC(p[1])
        TT == {t \in ((0 - A1 - 1)..(N + 1)) \X ((0 - A1 - 1)..(N + 1)) : InLat(t)}
        ov(t) == src[1] + t[1] < dst[3] /\ dst[1] < src[3] + t[1] /\ src[2] + t[2] < dst[4] /\ dst[2] < src[4] + t[2]
        tch(t) == src[1] + t[1] <= dst[3] /\ dst[1] <= src[3] + t[1] /\ src[2] + t[2] <= dst[4] /\ dst[2] <= src[4] + t[2]
    IN [must |-> {LatIJ(t) : t \in {x \in TT : ov(x)}}, may |-> {LatIJ(t) : t \in {x \in TT : tch(x)}}]
\* feature: two different copies of P share a stretch of boundary (the boolean operation sees coincident edges)
EdgesOf(c) == {<<c[i], Nxt(c, i)>> : i \in 1..Len(c)}
OverlapE(e, f) == /\ e[1] # e[2] /\ f[1] # f[2]
                  /\ Cross(e[1], e[2], f[1]) = 0 /\ Cross(e[1], e[2], f[2]) = 0
                  /\ LET d == IF e[1][1] # e[2][1] THEN 1 ELSE 2
                         elo == MinI(e[1][d], e[2][d]) ehi == MaxI(e[1][d], e[2][d])
                         flo == MinI(f[1][d], f[2][d]) fhi == MaxI(f[1][d], f[2][d])
                     IN MaxI(elo, flo) < MinI(ehi, fhi)
CopiesTouch == \E t \in {x \in ((0 - A1)..A1) \X ((0 - A1)..A1) : x # <<0, 0>> /\ InLat(x)} :
                  \E e \in EdgesOf(p[1]), f \in EdgesOf(Shift(p[1], t)) : OverlapE(e, f) \/ SegsMeet(e[1], e[2], f[1], f[2])
ClipTouch == \E t \in {x \in ((0 - A1 - 1)..(N + 1)) \X ((0 - A1 - 1)..(N + 1)) : InLat(x)} :
                  \E e \in EdgesOf(a.clip), f \in EdgesOf(Shift(p[1], t)) : OverlapE(e, f)
TileScenario == [kind |-> "tile", p |-> p, u |-> a.u, v |-> a.v, clip |-> a.clip,
                 cells |-> [k \in 1..NS |-> TileCell(Sample(k))], tr |-> TRPos,
                 f |-> [touch |-> CopiesTouch, cliptouch |-> ClipTouch, deg |-> Area2(p[1]) = 0 \/ Area2(a.clip) = 0,
                        spike |-> (\E i \in 1..Len(p[1]) : FoldBack(p[1], i)) \/ (\E i \in 1..Len(a.clip) : FoldBack(a.clip, i)),
                        simple |-> Simple(p[1]) /\ Simple(a.clip)]]
TileValid == NoDup(p[1], FALSE) /\ NoDup(a.clip, FALSE)
\* laws: periodicity of the union of translates; additivity when P fits the cell of a square tiling and the clip is a
\* block of whole cells (every cell then shows the same picture as P in its own cell)
TileLaws ==
    LET clip == ScaleC(S, a.clip) IN
    /\ \A k \in 1..NS : LET s == Sample(k) s2 == <<s[1] + S * a.u[1], s[2] + S * a.u[2]>>
                            T == TransAt(s) T2 == TransAt(s2) IN
         /\ T2 = {<<t[1] + a.u[1], t[2] + a.u[2]>> : t \in T}
         /\ SumW(T, s) = SumW(T2, s2)
    /\ (a.u[2] = 0 /\ a.v[1] = 0 /\ a.u[1] = a.v[2] /\ a.u[1] >= A1 /\ a.clip = <<<<0, 0>>, <<N, 0>>, <<N, N>>, <<0, N>>>> /\ N % a.u[1] = 0) =>
         LET m == a.u[1]
             inP == Cardinality({k \in 1..NS : Sample(k)[1] < S * m /\ Sample(k)[2] < S * m /\ TileCell(Sample(k)) = 1})
             inAll == Cardinality({k \in 1..NS : TileCell(Sample(k)) = 1})
         IN inAll = (N \div m) * (N \div m) * inP

\* =================================================================================================================
\* snap: Path.Gridsnap(spacing).  p on the (fine) lattice 0..N, a = [g |-> spacing in fine units]
\* =================================================================================================================
SnapSet(x, g) == {y \in {g * (x \div g), g * (x \div g) + g} : 2 * Abs(y - x) <= g}
SnapTie == \E k \in 1..Len(p) : \E i \in 1..Len(p[k]) : \E d \in {1, 2} : Cardinality(SnapSet(p[k][i][d], a.g)) > 1
SnapOne(x, g) == CHOOSE y \in SnapSet(x, g) : \A z \in SnapSet(x, g) : z <= y         \* ties upwards (only used without ties)
Snapped == [k \in 1..Len(p) |-> [i \in 1..Len(p[k]) |-> <<SnapOne(p[k][i][1], a.g), SnapOne(p[k][i][2], a.g)>>]]
SnapScenario == [kind |-> "snap", p |-> p, g |-> a.g, tie |-> SnapTie,
                 allowed |-> [k \in 1..Len(p) |-> [i \in 1..Len(p[k]) |-> [d \in 1..2 |-> SnapSet(p[k][i][d], a.g)]]],
                 snapped |-> Snapped, cells |-> IF SnapTie THEN <<>> ELSE WVec(ScaleP(S, Snapped))]
SnapValid == \A k \in 1..Len(p) : NoDup(p[k], FALSE)
SnapLaws == \A x \in 0..N : LET ss == SnapSet(x, a.g) IN
    /\ ss # {} /\ \A y \in ss : y % a.g = 0 /\ 2 * Abs(y - x) <= a.g /\ SnapSet(y, a.g) = {y}
    /\ (x < N => SnapOne(x, a.g) <= SnapOne(x + 1, a.g))

\* =================================================================================================================
\* vw: Visvalingam-Whyatt.  a = [open, k]: a vertex is removed while its triangle has 2*area <= k (the real tolerance
\* is (k + 1/2) / 2, never equal to an area).  Strict = always a vertex of currently minimal area (ties: any).
\* Lenient = any vertex whose area is below the tolerance.  Closed contours that drop below 3 vertices vanish.
\* =================================================================================================================
RemoveAt(s, i) == SubSeq(s, 1, i - 1) \o SubSeq(s, i + 1, Len(s))
Removable(s, open) == IF open THEN 2..(Len(s) - 1) ELSE 1..Len(s)
TArea(s, i) == Abs(Cross(Prv(s, i), s[i], Nxt(s, i)))
RECURSIVE VWStrict(_, _, _)
VWStrict(s, open, k) ==
    LET R == Removable(s, open) IN
    IF R = {} THEN {s}
    ELSE LET m == SetMin({TArea(s, i) : i \in R}) IN
         IF m > k THEN {s}
         ELSE IF ~open /\ Len(s) <= 3 THEN {<<>>}
         ELSE UNION {VWStrict(RemoveAt(s, i), open, k) : i \in {j \in R : TArea(s, j) = m}}
RECURSIVE VWLenient(_, _, _)
VWLenient(s, open, k) ==
    LET R == {i \in Removable(s, open) : TArea(s, i) <= k} IN
    IF R = {} THEN {s}
    ELSE IF ~open /\ Len(s) <= 3 THEN {<<>>}
    ELSE UNION {VWLenient(RemoveAt(s, i), open, k) : i \in R}
VWScenario == [kind |-> "vw", p |-> p, open |-> a.open, k |-> a.k,
               strict |-> VWStrict(p[1], a.open, a.k), lenient |-> VWLenient(p[1], a.open, a.k)]
VWValid == NoDup(p[1], a.open) /\ (a.open => p[1][1] # p[1][Len(p[1])])
RECURSIVE IsSubseq(_, _)
IsSubseq(x, y) == IF x = <<>> THEN TRUE ELSE IF y = <<>> THEN FALSE
                  ELSE IF Head(x) = Head(y) THEN IsSubseq(Tail(x), Tail(y)) ELSE IsSubseq(x, Tail(y))
VWLaws == LET c == p[1] st == VWStrict(c, a.open, a.k) ln == VWLenient(c, a.open, a.k) IN
    /\ st # {} /\ st \subseteq ln
    /\ \A r \in ln : /\ IsSubseq(r, c)
                     /\ (a.open => r # <<>> /\ r[1] = c[1] /\ r[Len(r)] = c[Len(c)])
                     /\ (r # <<>> => \A i \in Removable(r, a.open) : TArea(r, i) > a.k)          \* nothing left to remove
                     /\ (r # <<>> /\ ~a.open => Len(r) >= 3)
                     /\ Abs(Abs(Area2(r)) - Abs(Area2(c))) <= (Len(c) - Len(r)) * a.k             \* area changes by < tolerance per vertex
    /\ (a.k = 0 /\ ~(\E i \in Removable(c, a.open) : TArea(c, i) = 0) => st = {c})

\* =================================================================================================================
\* hatch: NewLineHatch(angle, distance, thickness).Tile(clip), NewCrossHatch(0, 90, d, d, thickness).Tile(clip).
\* a = [ang \in {0, 90}, cross, d, t (thickness in HALF units, t < 2 d), clip]
\* =================================================================================================================
\* one family of stripes in direction ang (0: along x, 90: along y)
HatchCoord(s, ang) == IF ang = 0 THEN s[2] ELSE s[1]
HatchLine(s, ang) == LET per == S * a.d IN per * ((HatchCoord(s, ang) + per \div 2) \div per)       \* the nearest hatch line
HatchBand(s, ang) == 2 * Abs(HatchCoord(s, ang) - HatchLine(s, ang)) < H * a.t
HatchCell1(s, ang) ==
    LET clip == ScaleC(S, a.clip)
        L == HatchLine(s, ang)
        proj == IF ang = 0 THEN <<s[1], L>> ELSE <<L, s[2]>>
    IN IF 2 * Abs(HatchCoord(s, ang) - L) = H * a.t THEN 2
       ELSE IF ~HatchBand(s, ang) THEN 0
       ELSE IF OnContour(clip, proj) \/ OnContour(clip, s) THEN 2
       ELSE LET ws == WindContour(clip, s) # 0 wq == WindContour(clip, proj) # 0 IN
            IF ws /\ wq THEN 1 ELSE IF ~ws /\ ~wq THEN 0 ELSE 2
\* cross hatch (both families, the same distance): the union
\* (where a horizontal and a vertical hatch line meet exactly ON the clip's boundary the two clipped lines share an
\* end point and are stroked as one bent line with a join: the square around such a crossing is free)
HatchCell(s) == IF ~a.cross THEN HatchCell1(s, a.ang)
                ELSE LET x == HatchCell1(s, 0) y == HatchCell1(s, 90) IN
                     IF HatchBand(s, 0) /\ HatchBand(s, 90) /\ OnContour(ScaleC(S, a.clip), <<HatchLine(s, 90), HatchLine(s, 0)>>) THEN 2
                     ELSE IF x = 1 \/ y = 1 THEN 1 ELSE IF x = 0 /\ y = 0 THEN 0 ELSE 2
HatchScenario == [kind |-> "hatch", ang |-> a.ang, cross |-> a.cross, d |-> a.d, t |-> a.t, clip |-> a.clip,
                  cells |-> [k \in 1..NS |-> HatchCell(Sample(k))],
                  \* feature: two hatch lines of a cross hatch meet exactly on the clip's boundary
                  f |-> [xonb |-> a.cross /\ \E i, j \in 0..N : OnContour(ScaleC(S, a.clip), <<S * a.d * i, S * a.d * j>>),
                         \* feature: a hatch line touches the clip at a vertex without crossing (both neighbours on one side)
                         tv |-> \E ang \in (IF a.cross THEN {0, 90} ELSE {a.ang}) : \E i \in 1..Len(a.clip) :
                                  LET c == a.clip dd == IF ang = 0 THEN 2 ELSE 1 IN
                                  c[i][dd] % a.d = 0 /\ (Prv(c, i)[dd] - c[i][dd]) * (Nxt(c, i)[dd] - c[i][dd]) > 0]]
HatchValid == NoDup(a.clip, FALSE) /\ Area2(a.clip) # 0
\* without the clip the stripes are periodic with the distance; inside a clip that is the whole square no cell is free
\* unless it lies on a stripe's edge, and a filled cell is in the band
HatchLaws == \A k \in 1..NS : \A ang \in {0, 90} :
    LET s == Sample(k) s2 == IF ang = 0 THEN <<s[1], s[2] + S * a.d>> ELSE <<s[1] + S * a.d, s[2]>> IN
    /\ HatchBand(s, ang) = HatchBand(s2, ang)
    /\ (HatchCell1(s, ang) = 1 => HatchBand(s, ang))
    /\ (~HatchBand(s, ang) => HatchCell1(s, ang) \in {0, 2})
    /\ (a.cross /\ HatchCell1(s, ang) = 1 => HatchCell(s) \in {1, 2})

\* =================================================================================================================
ClipArgs == {[rect |-> r, open |-> o] : r \in RandomSubset(A1, RectSet), o \in (IF A2 = 1 THEN BOOLEAN ELSE {FALSE})}
NClip == IF What = "hatch" THEN Num ELSE 1
TileClips == {<< <<r[1], r[2]>>, <<r[3], r[2]>>, <<r[3], r[4]>>, <<r[1], r[4]>> >> : r \in RandomSubset(NClip + 1, IntRects)}
             \cup RandomSubset(NClip, [1..3 -> Pt]) \cup RandomSubset(NClip, [1..4 -> Pt]) \cup {<< <<0, 0>>, <<N, 0>>, <<N, N>>, <<0, N>> >>}
\* cells: a random sample, every rectangular cell (SquareCell / RectangleCell) that holds P, and the abstract rhombus
RectCells == {uv \in Cells : uv[1][2] = 0 /\ uv[2][1] = 0 /\ uv[1][1] >= A1 /\ uv[2][2] >= A1}
TileArgs == {[u |-> uv[1], v |-> uv[2], clip |-> cl] : uv \in RandomSubset(A3, Cells) \cup RectCells \cup ({<<<<2, 0>>, <<0 - 1, 1>>>>} \cap Cells), cl \in TileClips}
HatchArgs == {[ang |-> g[1], cross |-> g[2], d |-> d, t |-> t, clip |-> cl] : g \in {<<0, FALSE>>, <<90, FALSE>>, <<0, TRUE>>}, d \in 1..A1, t \in 1..A2, cl \in TileClips}

Init == /\ done = FALSE
        /\ \/ What = "clip" /\ p \in PathChoice /\ a \in ClipArgs /\ ClipValid
           \/ What = "poly" /\ p \in PathChoice /\ a \in {[open |-> o] : o \in BOOLEAN} /\ PolyValid
           \/ What = "tri" /\ p \in PathChoice /\ a = [x |-> 0] /\ TriValid
           \/ What = "tile" /\ p \in {<<c>> : c \in RandomSubset(Num, [1..K -> PtP])} /\ a \in TileArgs /\ TileValid
           \/ What = "snap" /\ p \in PathChoice /\ a \in {[g |-> g] : g \in 2..A1} /\ SnapValid
           \/ What = "vw" /\ p \in PathChoice /\ a \in {[open |-> o, k |-> k] : o \in BOOLEAN, k \in 0..A1} /\ VWValid
           \/ What = "hatch" /\ p = <<>> /\ a \in {x \in HatchArgs : x.t < 2 * x.d} /\ HatchValid

Scenario == CASE What = "clip" -> ClipScenario [] What = "poly" -> PolyScenario [] What = "tri" -> TriScenario
              [] What = "tile" -> TileScenario [] What = "snap" -> SnapScenario [] What = "vw" -> VWScenario
              [] What = "hatch" -> HatchScenario
Emit == /\ ~done /\ done' = TRUE /\ UNCHANGED <<p, a>>
        /\ PrintT("@@" \o ToJson(Scenario))
Spec == Init /\ [][Emit]_vars

Header == [hdr |-> TRUE, S |-> S, N |-> N, samples |-> [k \in 1..NS |-> Sample(k)]]
ASSUME PrintT("@@" \o ToJson(Header))
ASSUME (What = "clip" => N <= 6) /\ N <= 16    \* exactness of the cuts (S = 120 is divisible by 2*dx for dx <= 6); 32-bit products

Laws == done => CASE What = "clip" -> ClipLaws [] What = "poly" -> PolyLaws [] What = "tri" -> TriLaws
                  [] What = "tile" -> TileLaws [] What = "snap" -> SnapLaws [] What = "vw" -> VWLaws
                  [] What = "hatch" -> HatchLaws
=============================================================================
