---------------------------- MODULE Trace_Pools ----------------------------
(* Validation of pool events recorded from the real code (hooks VerifSetPoolHook, build tag verif).  *)
(* Events: [g, op ("get" | "put"), k (kind), o (object number, dense per kind), seq] in the order of  *)
(* the hook's mutex.  The real code initialises directly after Get, which the hook cannot see, so a    *)
(* logged "get" is the composition GetX ; Init.  A Get of an object that is neither pooled nor new, a  *)
(* Put of an object the goroutine does not own (double Put, Put of a foreign object) is rejected.      *)
EXTENDS Pools
CONSTANT NObj            \* number of distinct object identities in the trace
TO == 1..NObj            \* cfg: O <- TO
Trace == ndJsonDeserialize("trace_pools.ndjson")
VARIABLE l
tvars == <<vars, l>>
Ev == Trace[l]
Is(op) == l <= Len(Trace) /\ Ev.op = op /\ l' = l + 1

\* Get ; Init composed (the hook fires after Get returned; the initialisation follows in the same goroutine)
TGet == /\ Is("get")
        /\ LET g == Ev.g o == Ev.o IN
           /\ owner[o] = None
           /\ \/ (o \in pool /\ pool' = pool \ {o} /\ UNCHANGED born)
              \/ (o \notin born /\ born' = born \cup {o} /\ UNCHANGED pool)
           /\ owner' = [owner EXCEPT ![o] = g] /\ content' = [content EXCEPT ![o] = "init"]
           /\ held' = [held EXCEPT ![g] = @ + 1] /\ sched' = sched /\ UNCHANGED result
TPut == /\ Is("put") /\ LET g == Ev.g o == Ev.o IN
           /\ owner[o] = g /\ content[o] = "init"
           /\ owner' = [owner EXCEPT ![o] = None] /\ pool' = pool \cup {o} /\ content' = [content EXCEPT ![o] = "garbage"]
           /\ held' = [held EXCEPT ![g] = @ - 1] /\ sched' = sched /\ UNCHANGED <<born, result>>
\* objects that the garbage collector removed from the pool simply never come back; a poisoned object is
\* announced by the driver before the run
TPoison == /\ Is("poison") /\ LET o == Ev.o IN
              /\ o \notin born /\ born' = born \cup {o} /\ pool' = pool \cup {o}
              /\ content' = [content EXCEPT ![o] = "garbage"] /\ sched' = sched /\ UNCHANGED <<owner, held, result>>
\* end of a call of goroutine g: everything taken has been returned or is garbage-collectable; objects that a
\* call keeps (the code does not return SweepPoints of left events whose right event was dropped) are released
TEnd == /\ Is("end") /\ LET g == Ev.g IN
           /\ owner' = [o \in O |-> IF owner[o] = g THEN None ELSE owner[o]]
           /\ held' = [held EXCEPT ![g] = 0] /\ sched' = sched /\ UNCHANGED <<pool, content, born, result>>
TInit == Init0 /\ l = 1
TNext == TGet \/ TPut \/ TPoison \/ TEnd
TSpec == TInit /\ [][TNext]_tvars
TraceAccepted == TLCGet("stats").diameter - 1 = Len(Trace)
=============================================================================
