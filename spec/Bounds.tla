------------------------------- MODULE Bounds -------------------------------
(* C08: Bounds() is the smallest axis-aligned box of the path, FastBounds() contains it, both are     *)
(* equivariant under translation and reflection.                                                     *)
(*                                                                                                    *)
(* Scenario = a lattice curve path (LatCurves / CurveGen) + its EXACT bounding box.  Every side is    *)
(* the support value  h(d) = max { d.x : x on the path }  for d in {(-1,0),(0,-1),(1,0),(0,1)} and is  *)
(* printed in one of two forms (all integers):                                                        *)
(*    <<0, a, b, c, e, 0>>   a rational bracket  a/b <= side <= c/e   (a/b = c/e: the side is exact;   *)
(*                           a proper bracket only for cubic extrema: dyadic points below, sub-hulls   *)
(*                           above, width ~1e-4 lattice units at depth CubK; or a 1e-3 bracket when an  *)
(*                           irrational candidate and a cubic bracket cannot be ordered)              *)
(*    <<1, a, b, c, e, s>>   side = a/b + s * sqrt(c/e)   (s = +1 / -1): the irrational extent of an   *)
(*                           ellipse rotated by atan(3/4), or the apex of an arc given by a chord      *)
(* lines: vertices.  quadratic: stationary value (p0 p2 - p1^2)/(p0 - 2 p1 + p2) when the parameter    *)
(* is strictly inside (0,1).  cubic: branch-and-bound de Casteljau.  axis-parallel arcs: the integer   *)
(* axis-extreme point counts iff it is ON the arc (LatCurves!ArcWB).  rotated arcs: the extreme point   *)
(* is irrational; it is on the arc iff its direction in the "circle plane" (u/rx, v/ry) lies in the    *)
(* counter-clockwise sweep between the directions of the arc's end points (integer cross products).    *)
(* chord arcs (rot = 3: an SVG arc given by a horizontal/vertical chord of integer length w and         *)
(* integer radii, centre not on the lattice, incl. radii that are too small and are scaled): closed     *)
(* form of the SVG end-point parametrisation.                                                          *)
(* The box is also printed for every embedding of Embs (reflections, transposition, dyadic              *)
(* translation, scale 1/2); the map of a box under those is linear per side and is done here.          *)
EXTENDS CurveGen, Json, Randomization

CONSTANTS N,        \* control lattice 0..N
          NC,       \* contours (curves mode)
          Mode,     \* "quads" | "arcs" | "chords" | "cubics" | "curves" | "rotmix"
          Kinds,    \* curves: subset of {"L","Q","C","A"}
          Fam,      \* arcs / curves: set of ellipse families (arcs: indices into XFams; curves: into CurveGen!Fams)
          Num,      \* random modes: scenarios per RandomSubset
          CubK      \* depth of the cubic subdivision (8^CubK * N * 4N must stay below 2^31)

VARIABLES path, done
vars == <<path, done>>

\* ---- rationals <<n, d>>, d > 0 ----------------------------------------------------------------------------------
\* (the case split keeps the products small when one denominator is 8^CubK)
RCmp(x, y) == IF x[2] = y[2] THEN Sgn(x[1] - y[1])
              ELSE IF x[2] % y[2] = 0 THEN Sgn(x[1] - y[1] * (x[2] \div y[2]))
              ELSE IF y[2] % x[2] = 0 THEN Sgn(x[1] * (y[2] \div x[2]) - y[1])
              ELSE Sgn(x[1] * y[2] - y[1] * x[2])
RMaxOf(x, y) == IF RCmp(x, y) >= 0 THEN x ELSE y
RNeg(x) == <<-x[1], x[2]>>
RInt(n) == <<n, 1>>
RECURSIVE Pow8(_)
Pow8(k) == IF k = 0 THEN 1 ELSE 8 * Pow8(k - 1)
CubD == Pow8(CubK)
\* floor / ceiling of a rational to the denominator 1024 (only needed for the 8^CubK denominators of cubic brackets)
CoarseLo(x) == IF x[2] <= 1024 THEN x ELSE <<x[1] \div (x[2] \div 1024), 1024>>
CoarseHi(x) == IF x[2] <= 1024 THEN x ELSE <<-((-x[1]) \div (x[2] \div 1024)), 1024>>

Dt(d, p) == d[1] * p[1] + d[2] * p[2]
Dirs == << <<-1, 0>>, <<0, -1>>, <<1, 0>>, <<0, 1>> >>      \* x0, y0, x1, y1
Cr(p, q) == p[1] * q[2] - p[2] * q[1]
Max4(a, b, c, e) == MaxI(MaxI(a, b), MaxI(c, e))

\* ---- ellipse frames: rot 0 = u axis (1,0); 1 = (4,3)/5; 2 = (4,-3)/5 (the mirror image of 1) ---------------------
AxisOf(rot) == CASE rot = 1 -> <<4, 3>> [] rot = 2 -> <<4, -3>> [] OTHER -> <<1, 0>>
Den2Of(rot) == IF rot \in {1, 2} THEN 25 ELSE 1
BU(g, s) == LET ax == AxisOf(g.rot) IN ax[1] * (s[1] - g.c1[1]) + ax[2] * (s[2] - g.c1[2])
BV(g, s) == LET ax == AxisOf(g.rot) IN ax[1] * (s[2] - g.c1[2]) - ax[2] * (s[1] - g.c1[1])
BEllF(g, s) == LET u == BU(g, s) v == BV(g, s) a == g.c2[1] b == g.c2[2]
               IN Sgn(b * b * u * u + a * a * v * v - a * a * b * b * Den2Of(g.rot))
\* direction of the point s of the ellipse after the map (u, v) -> (u / rx, v / ry) onto the unit circle (times rx ry)
CD(g, s) == <<g.c2[2] * BU(g, s), g.c2[1] * BV(g, s)>>
\* direction (same plane) of the point of the ellipse whose outward normal is the world direction d
LocD(g, d) == LET ax == AxisOf(g.rot) IN <<ax[1] * d[1] + ax[2] * d[2], ax[1] * d[2] - ax[2] * d[1]>>
ED(g, d) == LET l == LocD(g, d) IN <<g.c2[1] * l[1], g.c2[2] * l[2]>>
\* squared support radius (numerator; denominator Den2Of): extent of the full ellipse in direction d from the centre
ExtNum(g, d) == LET l == LocD(g, d) IN g.c2[1] * g.c2[1] * l[1] * l[1] + g.c2[2] * g.c2[2] * l[2] * l[2]
\* dE lies in the closed counter-clockwise sweep from dA to dB (dA, dB not parallel-and-equal)
InSweep(dA, dE, dB) == LET x == Cr(dA, dB) IN
    IF x > 0 THEN Cr(dA, dE) >= 0 /\ Cr(dE, dB) >= 0
    ELSE IF x < 0 THEN ~(Cr(dB, dE) > 0 /\ Cr(dE, dA) > 0)
    ELSE Cr(dA, dE) >= 0
\* the extreme point of the ellipse in direction d lies on the arc a0 -> g.p
ArcOnExt(a0, g, d) == IF g.sw = 1 THEN InSweep(CD(g, a0), ED(g, d), CD(g, g.p))
                      ELSE InSweep(CD(g, g.p), ED(g, d), CD(g, a0))
\* the same decision for axis-parallel ellipses through the integer extreme point and LatCurves!ArcWB
AxisExt(g, d) == <<g.c1[1] + d[1] * g.c2[1], g.c1[2] + d[2] * g.c2[2]>>
ArcOnExtWB(a0, g, d) == ArcWB(a0, g, AxisExt(g, d))[2] = 1

\* ---- chord arcs (rot = 3) -----------------------------------------------------------------------------------------
ChordArc(rad, lg, sw, p) == [k |-> "A", p |-> p, c1 |-> Z2, c2 |-> rad, rot |-> 3, lg |-> lg, sw |-> sw]
ChordOK(a0, g) == a0 # g.p /\ (a0[1] = g.p[1] \/ a0[2] = g.p[2]) /\ g.c2[1] > 0 /\ g.c2[2] > 0

\* ---- support of one segment in direction d: [lo, hi: rationals; sq: sequence of <<cn, cd, s, qn, qd>>] --------------
Exact(r) == [lo |-> r, hi |-> r, sq |-> <<>>]
QuadSup(s0, s1, s2) ==
    LET base == RInt(MaxI(s0, s2)) IN
    IF (s0 - s1) * (s2 - s1) > 0
    THEN LET den == s0 - 2 * s1 + s2 num == s0 * s2 - s1 * s1
             v == IF den > 0 THEN <<num, den>> ELSE <<-num, -den>>
         IN RMaxOf(base, v)
    ELSE base
RECURSIVE CB(_, _, _, _, _)
CB(a, b, c, e, k) ==
    LET u == Max4(a, b, c, e) l == MaxI(a, e) IN
    IF k = 0 \/ u = l THEN <<l, u>>
    ELSE LET ab == (a + b) \div 2 bc == (b + c) \div 2 ce == (c + e) \div 2
             abc == (ab + bc) \div 2 bce == (bc + ce) \div 2 m == (abc + bce) \div 2
             L == CB(a, ab, abc, m, k - 1) R == CB(m, bce, ce, e, k - 1)
         IN <<MaxI(L[1], R[1]), MaxI(L[2], R[2])>>
CubSup(s0, s1, s2, s3) ==
    IF Max4(s0, s1, s2, s3) = MaxI(s0, s3) THEN Exact(RInt(MaxI(s0, s3)))
    ELSE LET r == CB(CubD * s0, CubD * s1, CubD * s2, CubD * s3, CubK)
         IN IF r[1] = r[2] THEN Exact(<<r[1], CubD>>) ELSE [lo |-> <<r[1], CubD>>, hi |-> <<r[2], CubD>>, sq |-> <<>>]
ChordSup(a0, g, d) ==
    LET al == IF a0[2] = g.p[2] THEN 1 ELSE 2  pe == 3 - al
        ra == g.c2[al] rb == g.c2[pe]
        w == Abs(g.p[al] - a0[al]) dirn == Sgn(g.p[al] - a0[al])
        \* side of the chord on which the arc lies (sign along the perpendicular axis)
        beta == IF al = 1 THEN (IF g.sw = 1 THEN -dirn ELSE dirn) ELSE (IF g.sw = 1 THEN dirn ELSE -dirn)
        ends == RInt(MaxI(Dt(d, a0), Dt(d, g.p)))
    IN IF d[al] # 0
       THEN IF g.lg = 1 /\ w < 2 * ra THEN Exact(<<d[al] * (a0[al] + g.p[al]) + 2 * ra, 2>>) ELSE Exact(ends)
       ELSE IF d[pe] # beta THEN Exact(ends)
       ELSE IF w >= 2 * ra THEN Exact(<<d[pe] * a0[pe] * 2 * ra + rb * w, 2 * ra>>)
       ELSE [lo |-> ends, hi |-> ends,
             sq |-> << <<d[pe] * a0[pe] + rb, 1, IF g.lg = 1 THEN 1 ELSE -1, rb * rb * (4 * ra * ra - w * w), 4 * ra * ra>> >>]
\* mode: 0 = the exact decision; 1 = every rotated arc contributes its full-ellipse extreme; used for the `off` lists
ArcSup(a0, g, d) ==
    LET ends == RInt(MaxI(Dt(d, a0), Dt(d, g.p))) IN
    IF g.rot = 3 THEN ChordSup(a0, g, d)
    ELSE IF g.rot = 0 THEN (IF ArcOnExtWB(a0, g, d) THEN Exact(RMaxOf(ends, RInt(Dt(d, AxisExt(g, d))))) ELSE Exact(ends))
    ELSE [lo |-> ends, hi |-> ends,
          sq |-> IF ArcOnExt(a0, g, d) THEN << <<Dt(d, g.c1), 1, 1, ExtNum(g, d), 25>> >> ELSE <<>>]
SegSup(a0, g, d) ==
    CASE g.k = "L" -> Exact(RInt(MaxI(Dt(d, a0), Dt(d, g.p))))
      [] g.k = "Q" -> Exact(QuadSup(Dt(d, a0), Dt(d, g.c1), Dt(d, g.p)))
      [] g.k = "C" -> CubSup(Dt(d, a0), Dt(d, g.c1), Dt(d, g.c2), Dt(d, g.p))
      [] g.k = "A" -> ArcSup(a0, g, d)

\* all segments of the path as <<start, seg>> (the Close edge joins two vertices: it adds nothing to the box)
RECURSIVE FlatSegs_(_, _)
FlatSegs_(p, j) == IF j = 0 THEN <<>> ELSE FlatSegs_(p, j - 1) \o [i \in 1..Len(p[j].segs) |-> <<SegStart(p[j], i), p[j].segs[i]>>]
FlatSegs(p) == FlatSegs_(p, Len(p))

\* ---- irrational candidates ------------------------------------------------------------------------------------------
SqS == 64
\* rational bracket <<lo, hi>> of  cn/cd + s * sqrt(qn/qd)
SqApprox(c) == LET cn == c[1] cd == c[2] s == c[3] qn == c[4] qd == c[5]
                   m == qn * qd * SqS * SqS
                   l == ISqrtLo(m) h == ISqrtHi(m) den == cd * SqS * qd
               IN IF s = 1 THEN << <<cn * SqS * qd + l * cd, den>>, <<cn * SqS * qd + h * cd, den>> >>
                  ELSE << <<cn * SqS * qd - h * cd, den>>, <<cn * SqS * qd - l * cd, den>> >>
\* sign of  (cn/cd + s sqrt(qn/qd)) - r   (exact; small denominators only)
SqCmpR(c, r) == LET mn == r[1] * c[2] - c[1] * r[2] md == r[2] * c[2]
                    t == Sgn(c[4] * md * md - c[5] * mn * mn)
                IN IF c[3] = 1 THEN (IF mn < 0 THEN 1 ELSE t) ELSE (IF mn > 0 THEN -1 ELSE -t)
SqSame(x, y) == x[3] = y[3] /\ RCmp(<<x[1], x[2]>>, <<y[1], y[2]>>) = 0 /\ x[4] * y[5] = y[4] * x[5]

\* ---- support of the path ----------------------------------------------------------------------------------------------
RECURSIVE Fold_(_, _, _)
Fold_(fs, d, i) == IF i = 1 THEN SegSup(fs[1][1], fs[1][2], d)
                   ELSE LET r == SegSup(fs[i][1], fs[i][2], d) t == Fold_(fs, d, i - 1)
                        IN [lo |-> RMaxOf(r.lo, t.lo), hi |-> RMaxOf(r.hi, t.hi), sq |-> r.sq \o t.sq]
RatSide(lo, hi) == <<0, lo[1], lo[2], hi[1], hi[2], 0>>
SqSide(c) == <<1, c[1], c[2], c[4], c[5], c[3]>>
Select(R, sqs) ==
    IF Len(sqs) = 0 THEN RatSide(R.lo, R.hi)
    ELSE LET ap == [i \in 1..Len(sqs) |-> SqApprox(sqs[i])]
             best == CHOOSE i \in 1..Len(sqs) : \A j \in 1..Len(sqs) : RCmp(ap[i][1], ap[j][1]) >= 0
             clear == \A j \in 1..Len(sqs) : SqSame(sqs[j], sqs[best]) \/ RCmp(ap[best][1], ap[j][2]) > 0
             rlo == CoarseLo(R.lo) rhi == CoarseHi(R.hi)
             RECURSIVE mx(_, _)
             mx(i, k) == IF i = 0 THEN (IF k = 1 THEN rlo ELSE rhi) ELSE RMaxOf(ap[i][k], mx(i - 1, k))
             mixed == RatSide(mx(Len(sqs), 1), mx(Len(sqs), 2))
         IN IF ~clear THEN mixed
            ELSE IF RCmp(ap[best][1], rhi) > 0 THEN SqSide(sqs[best])
            ELSE IF RCmp(ap[best][2], rlo) < 0 THEN RatSide(R.lo, R.hi)
            ELSE IF RCmp(R.lo, R.hi) = 0 /\ R.lo[2] * sqs[best][2] <= 80
                 THEN (IF SqCmpR(sqs[best], R.lo) > 0 THEN SqSide(sqs[best]) ELSE RatSide(R.lo, R.hi))
            ELSE mixed
Sup(fs, d) == LET f == Fold_(fs, d, Len(fs)) IN Select([lo |-> f.lo, hi |-> f.hi], f.sq)

\* full-ellipse extremes (direction d) of the rotated arcs whose extreme point is on the arc (on = TRUE) / NOT on the arc
RotList(fs, d, on) == LET idx == {i \in 1..Len(fs) : fs[i][2].k = "A" /\ fs[i][2].rot \in {1, 2} /\ ArcOnExt(fs[i][1], fs[i][2], d) = on}
                      IN SetToSeq({SqSide(<<Dt(d, fs[i][2].c1), 1, 1, ExtNum(fs[i][2], d), 25>>) : i \in idx})

\* ---- sides: value v -> -v  and  v -> (k v + t) / 4 -----------------------------------------------------------------
NegSide(x) == IF x[1] = 0 THEN <<0, -x[4], x[5], -x[2], x[3], 0>> ELSE <<1, -x[2], x[3], x[4], x[5], -x[6]>>
LinSide(k, t, x) ==
    IF x[1] = 0
    THEN (IF k > 0 THEN <<0, k * x[2] + t * x[3], 4 * x[3], k * x[4] + t * x[5], 4 * x[5], 0>>
          ELSE <<0, k * x[4] + t * x[5], 4 * x[5], k * x[2] + t * x[3], 4 * x[3], 0>>)
    ELSE <<1, k * x[2] + t * x[3], 4 * x[3], k * k * x[4], 16 * x[5], Sgn(k) * x[6]>>
SideEq(x, y) == /\ x[1] = y[1] /\ x[6] = y[6]
                /\ RCmp(<<x[2], x[3]>>, <<y[2], y[3]>>) = 0 /\ RCmp(<<x[4], x[5]>>, <<y[4], y[5]>>) = 0

\* the box: per side [v |-> form, off / on |-> forms of the off-arc / on-arc extremes of rotated arcs], order x0, y0, x1, y1
\* (a tuple, not a function constructor: TLC would re-evaluate a function body at every application)
SideRec(fs, i) == LET v == Sup(fs, Dirs[i]) ol == RotList(fs, Dirs[i], FALSE) nl == RotList(fs, Dirs[i], TRUE) IN
                  IF i <= 2 THEN [v |-> NegSide(v), off |-> [j \in 1..Len(ol) |-> NegSide(ol[j])], on |-> [j \in 1..Len(nl) |-> NegSide(nl[j])]]
                  ELSE [v |-> v, off |-> ol, on |-> nl]
BoxOf(p) == LET fs == FlatSegs(p) s1 == SideRec(fs, 1) s2 == SideRec(fs, 2) s3 == SideRec(fs, 3) s4 == SideRec(fs, 4)
            IN <<s1, s2, s3, s4>>

\* ---- embeddings  x' = (sx * (swap ? y : x) + tx) / 4,  y' = (sy * (swap ? x : y) + ty) / 4 ---------------------------
E(name, swap, sx, sy, tx, ty) == [name |-> name, swap |-> swap, sx |-> sx, sy |-> sy, tx |-> tx, ty |-> ty]
Embs == << E("id", 0, 4, 4, 0, 0), E("flipx", 0, -4, 4, 0, 0), E("flipy", 0, 4, -4, 0, 0), E("rot180", 0, -4, -4, 0, 0),
           E("transpose", 1, 4, 4, 0, 0), E("antitranspose", 1, -4, -4, 0, 0), E("translate", 0, 4, 4, 74, -13),
           E("half", 0, 2, 2, 0, 0), E("flipx-shift", 0, -4, 4, 40, 12), E("rot90", 1, -4, 4, 0, 0) >>
MapSideRec(k, t, r) == [v |-> LinSide(k, t, r.v), off |-> [j \in 1..Len(r.off) |-> LinSide(k, t, r.off[j])], on |-> [j \in 1..Len(r.on) |-> LinSide(k, t, r.on[j])]]
MapBox(e, B) == LET sxlo == IF e.swap = 1 THEN B[2] ELSE B[1] sxhi == IF e.swap = 1 THEN B[4] ELSE B[3]
                    sylo == IF e.swap = 1 THEN B[1] ELSE B[2] syhi == IF e.swap = 1 THEN B[3] ELSE B[4]
                IN << MapSideRec(e.sx, e.tx, IF e.sx > 0 THEN sxlo ELSE sxhi), MapSideRec(e.sy, e.ty, IF e.sy > 0 THEN sylo ELSE syhi),
                      MapSideRec(e.sx, e.tx, IF e.sx > 0 THEN sxhi ELSE sxlo), MapSideRec(e.sy, e.ty, IF e.sy > 0 THEN syhi ELSE sylo) >>

\* the abstract path under a lattice symmetry (sx, sy = +-4; tx, ty multiples of 4): only for the model-level invariant
MapPt(e, q) == LET x == IF e.swap = 1 THEN q[2] ELSE q[1] y == IF e.swap = 1 THEN q[1] ELSE q[2]
               IN <<(e.sx * x + e.tx) \div 4, (e.sy * y + e.ty) \div 4>>
MapSeg(e, g) ==
    LET refl == (e.sx * e.sy > 0) = (e.swap = 1)
        sw2 == IF refl THEN 1 - g.sw ELSE g.sw
        sr == IF e.swap = 1 THEN <<g.c2[2], g.c2[1]>> ELSE g.c2
        ax == AxisOf(g.rot)
        vx == Sgn(e.sx) * (IF e.swap = 1 THEN ax[2] ELSE ax[1]) vy == Sgn(e.sy) * (IF e.swap = 1 THEN ax[1] ELSE ax[2])
    IN IF g.k # "A" THEN [g EXCEPT !.p = MapPt(e, g.p), !.c1 = MapPt(e, g.c1), !.c2 = IF g.k = "C" THEN MapPt(e, g.c2) ELSE Z2]
       ELSE IF g.rot = 3 THEN [g EXCEPT !.p = MapPt(e, g.p), !.c2 = sr, !.sw = sw2]
       ELSE IF g.rot = 0 THEN [g EXCEPT !.p = MapPt(e, g.p), !.c1 = MapPt(e, g.c1), !.c2 = sr, !.sw = sw2]
       ELSE IF Abs(vx) = 4      \* axis (+-4, +-3): radii keep their roles
            THEN [g EXCEPT !.p = MapPt(e, g.p), !.c1 = MapPt(e, g.c1), !.sw = sw2, !.rot = IF vx * vy > 0 THEN 1 ELSE 2]
            ELSE                \* axis (+-3, +-4) = the v axis of the frame (4,-3) resp. (4,3): radii change roles
                 [g EXCEPT !.p = MapPt(e, g.p), !.c1 = MapPt(e, g.c1), !.sw = sw2, !.c2 = <<g.c2[2], g.c2[1]>>, !.rot = IF vx * vy > 0 THEN 2 ELSE 1]
MapCtr(e, c) == [c EXCEPT !.s = MapPt(e, c.s), !.segs = [i \in 1..Len(c.segs) |-> MapSeg(e, c.segs[i])]]
MapPath(e, p) == [j \in 1..Len(p) |-> MapCtr(e, p[j])]

\* ---- feature predicates (exact) ---------------------------------------------------------------------------------------
IsArc(fs, i) == fs[i][2].k = "A"
\* the condition of the library's arc-centre shortcut as it sees the arc after its rx >= ry normalisation:
\* rotation 0, horizontal chord, |dx| = rx   (T: the same after a transposing embedding)
ChordRx(fs) == \E i \in 1..Len(fs) : LET a0 == fs[i][1] g == fs[i][2] IN
                  IsArc(fs, i) /\ g.rot \in {0, 3} /\ g.c2[1] >= g.c2[2] /\ a0[2] = g.p[2] /\ Abs(g.p[1] - a0[1]) = g.c2[1]
ChordRxT(fs) == \E i \in 1..Len(fs) : LET a0 == fs[i][1] g == fs[i][2] IN
                  IsArc(fs, i) /\ g.rot \in {0, 3} /\ g.c2[2] >= g.c2[1] /\ a0[1] = g.p[1] /\ Abs(g.p[2] - a0[2]) = g.c2[2]
EndExt(fs) == \E i \in 1..Len(fs) : IsArc(fs, i) /\ fs[i][2].rot = 0 /\ \E k \in 1..4 : AxisExt(fs[i][2], Dirs[k]) \in {fs[i][1], fs[i][2].p}
VertMax(fs, d) == LET RECURSIVE m(_)
                      m(i) == IF i = 0 THEN -1000000 ELSE MaxI(MaxI(Dt(d, fs[i][1]), Dt(d, fs[i][2].p)), m(i - 1))
                  IN m(Len(fs))
Features(p, fs, B) ==
    [rot |-> \E i \in 1..Len(fs) : IsArc(fs, i) /\ fs[i][2].rot \in {1, 2},
     chord |-> \E i \in 1..Len(fs) : IsArc(fs, i) /\ fs[i][2].rot = 3,
     chordRx |-> ChordRx(fs), chordRxT |-> ChordRxT(fs), endExt |-> EndExt(fs),
     cubic |-> \E i \in 1..Len(fs) : fs[i][2].k = "C", quad |-> \E i \in 1..Len(fs) : fs[i][2].k = "Q",
     arc |-> \E i \in 1..Len(fs) : IsArc(fs, i), multi |-> Len(p) > 1,
     \* a curve extremum matters: some side differs from the box of the vertices
     nontriv |-> \E k \in 1..4 : LET s == IF k <= 2 THEN NegSide(B[k].v) ELSE B[k].v IN
                                   s[1] = 1 \/ RCmp(<<s[4], s[5]>>, RInt(VertMax(fs, Dirs[k]))) # 0]

\* ---- scenario choice ------------------------------------------------------------------------------------------------------
Pt == (0..N) \X (0..N)
\* TLC's RandomSubset draws ONE 63-bit index into the enumeration of a function set: over [1..GenLen -> 0..GenMax] all but
\* the last four or five components of every sampled vector are 0.  Sample a set of size 2^60 instead and expand each
\* element to GenLen components (salt selects independent expansions for the contours of one path).
BaseVecs == [1..4 -> 0..32767]
Expand(b, salt) == [i \in 1..GenLen |-> (b[(i % 4) + 1] * (2 * i + 1 + 2 * salt) + b[((i + 1) % 4) + 1] * 7919 + b[((i + 2 + salt) % 4) + 1]
                                           + (i + 31 * salt) * 104729) % 9973]
\* ellipse families: CurveGen!Fams (1..12) plus four ellipses rotated by atan(3/4) that carry EIGHT lattice points (the
\* rotated families of CurveGen carry only the four ends of their axes, where every quadrant decision is trivially right)
XFams == Fams \o << [rad |-> <<20, 5>>, rot |-> 1], [rad |-> <<5, 20>>, rot |-> 1], [rad |-> <<15, 10>>, rot |-> 1], [rad |-> <<10, 15>>, rot |-> 1] >>
XProto(f) == Ar(Z2, XFams[f].rad, XFams[f].rot, 0, 0, Z2)
XFamR(f) == MaxI(XFams[f].rad[1], XFams[f].rad[2])
XFamSeq == [f \in 1..Len(XFams) |-> SetToSeq({s \in (-20..20) \X (-20..20) : EllF(XProto(f), s) = 0})]
XMkArc(f, c, a, b, sw, lgHalf) ==
    LET g0 == Ar(c, XFams[f].rad, XFams[f].rot, 0, sw, PAdd(c, b)) t == ArcTurn(PAdd(c, a), g0)
    IN [g0 EXCEPT !.lg = IF t = 0 THEN lgHalf ELSE IF (sw = 1) = (t > 0) THEN 0 ELSE 1]
\* (ArcSet and ChordSet take a parameter so that TLC does not evaluate them eagerly as constants in every mode)
ArcSet(fam) == UNION {LET pts == XFamSeq[f] r == XFamR(f) c0 == <<r, r>> IN
                   {<<Ctr(PAdd(c0, pts[x[1]]), <<XMkArc(f, c0, pts[x[1]], pts[x[2]], x[3], x[4])>>, FALSE)>> :
                       x \in {y \in (1..Len(pts)) \X (1..Len(pts)) \X {0, 1} \X {0, 1} :
                                 y[1] # y[2] /\ (y[4] = 0 \/ ArcTurn(PAdd(c0, pts[y[1]]), XMkArc(f, c0, pts[y[1]], pts[y[2]], y[3], 0)) = 0)}} : f \in fam}
\* an arc of the eight-point rotated families (centre (20,20)) + a second contour of CurveGen on the lattice 0..10 scaled by 4
RotMix(b) == LET rv == Expand(b, 0) f == 13 + (rv[1] % 4) pts == XFamSeq[f] np == Len(pts) c0 == <<20, 20>>
                 ia == rv[2] % np ib == (ia + 1 + (rv[3] % (np - 1))) % np
             IN << Ctr(PAdd(c0, pts[ia + 1]), <<XMkArc(f, c0, pts[ia + 1], pts[ib + 1], rv[4] % 2, rv[5] % 2)>>, rv[6] % 2 = 0),
                   ScaleCtr(4, DecodeCtr(Expand(b, 1), 10, Kinds \cup {"L"}, Fam)) >>
\* chord arcs: radii 1..N, chord length 1..2N+2 (longer than the diameter: radii are scaled), both travel directions, all flags
ChordSet(n) == {LET w == x[3] x1 == IF x[4] = 1 THEN 1 ELSE 1 + w x2 == IF x[4] = 1 THEN 1 + w ELSE 1
             IN <<Ctr(<<x1, 2>>, <<ChordArc(<<x[1], x[2]>>, x[5], x[6], <<x2, 2>>)>>, FALSE)>> :
                x \in {y \in (1..n) \X (1..n) \X (1..(2 * n + 2)) \X {0, 1} \X {0, 1} \X {0, 1} : y[3] <= 2 * y[1] + 2}}
PathChoice ==
    CASE Mode = "quads"  -> {<<Ctr(x[1], <<Qd(x[2], x[3])>>, FALSE)>> : x \in {y \in Pt \X Pt \X Pt : ~(y[1] = y[2] /\ y[2] = y[3])}}
      [] Mode = "arcs"   -> ArcSet(Fam)
      [] Mode = "chords" -> ChordSet(N)
      [] Mode = "cubics" -> {<<Ctr(<<v[1], v[2]>>, <<Cb(<<v[3], v[4]>>, <<v[5], v[6]>>, <<v[7], v[8]>>)>>, v[9] % 2 = 1)>> : v \in RandomSubset(Num, [1..9 -> 0..N])}
      [] Mode = "rotmix" -> {RotMix(b) : b \in RandomSubset(Num, BaseVecs)}
      [] Mode = "curves" -> IF NC = 1 THEN {<<DecodeCtr(Expand(b, 0), N, Kinds, Fam)>> : b \in RandomSubset(Num, BaseVecs)}
                            ELSE {<<DecodeCtr(Expand(b, 0), N, Kinds, Fam), DecodeCtr(Expand(b, 1), N, Kinds \cup {"L"}, Fam)>> : b \in RandomSubset(Num, BaseVecs)}

SegGood(a0, g) == IF g.k = "A" THEN (IF g.rot = 3 THEN ChordOK(a0, g) ELSE ArcOK(a0, g)) ELSE TRUE
PathGood(p) == \A j \in 1..Len(p) : /\ Len(p[j].segs) > 0
                                    /\ \A i \in 1..Len(p[j].segs) : SegGood(SegStart(p[j], i), p[j].segs[i])
                                    /\ \E i \in 1..Len(p[j].segs) : LET g == p[j].segs[i] IN g.p # p[j].s \/ (g.k = "Q" /\ g.c1 # g.p) \/ (g.k = "C" /\ (g.c1 # g.p \/ g.c2 # g.p)) \/ g.k = "A"

EmitSeg(g) == IF g.k = "A" /\ g.rot = 3 THEN [g EXCEPT !.rot = 0] ELSE g
EmitPath(p) == [j \in 1..Len(p) |-> [p[j] EXCEPT !.segs = [i \in 1..Len(p[j].segs) |-> EmitSeg(p[j].segs[i])]]]
Scenario == LET fs == FlatSegs(path) B == BoxOf(path)
            IN [path |-> EmitPath(path), f |-> Features(path, fs, B), box |-> [e \in 1..Len(Embs) |-> MapBox(Embs[e], B)]]

Init == path \in PathChoice /\ done = FALSE
Emit == ~done /\ done' = TRUE /\ UNCHANGED path /\ PathGood(path) /\ PrintT("@@" \o ToJson(Scenario))
Spec == Init /\ [][Emit]_vars

Header == [hdr |-> TRUE, embs |-> Embs, cubK |-> CubK]
ASSUME PrintT("@@" \o ToJson(Header))

\* ---- model-level properties (MC config) -----------------------------------------------------------------------------------
McSyms == {e \in {Embs[i] : i \in 1..Len(Embs)} : Abs(e.sx) = 4 /\ e.tx % 4 = 0 /\ e.ty % 4 = 0}
\* value (rational r) <= side (max side form)
RLe(r, x) == IF x[2] > 1024 /\ x[2] % r[2] = 0 THEN r[1] * (x[2] \div r[2]) <= x[1] ELSE RCmp(r, x) <= 0
LeSide(r, s) == IF s[1] = 0 THEN RLe(r, <<s[4], s[5]>>)
                ELSE IF r[2] * s[3] <= 8 THEN SqCmpR(<<s[2], s[3], s[6], s[4], s[5]>>, r) >= 0
                ELSE RCmp(r, SqApprox(<<s[2], s[3], s[6], s[4], s[5]>>)[2]) <= 0
\* way-points of a segment as <<x, y, den>>: end points, dyadic points of Beziers (t = i/8), lattice points on lattice arcs
WayPts(a0, g) ==
    CASE g.k = "L" -> {<<a0[1], a0[2], 1>>, <<g.p[1], g.p[2], 1>>}
      [] g.k = "Q" -> {<<(8 - i) * (8 - i) * a0[1] + 2 * i * (8 - i) * g.c1[1] + i * i * g.p[1],
                         (8 - i) * (8 - i) * a0[2] + 2 * i * (8 - i) * g.c1[2] + i * i * g.p[2], 64>> : i \in 0..8}
      [] g.k = "C" -> LET ps == CubPieces(<<PMul(512, a0), PMul(512, g.c1), PMul(512, g.c2), PMul(512, g.p)>>, 3)
                      IN {<<ps[i][1][1], ps[i][1][2], 512>> : i \in 1..Len(ps)} \cup {<<512 * g.p[1], 512 * g.p[2], 512>>}
      [] g.k = "A" -> IF g.rot = 3 THEN {<<a0[1], a0[2], 1>>, <<g.p[1], g.p[2], 1>>}
                      ELSE {<<s[1], s[2], 1>> : s \in {t \in ((g.c1[1] - 20)..(g.c1[1] + 20)) \X ((g.c1[2] - 20)..(g.c1[2] + 20)) :
                                                         BEllF(g, t) = 0 /\ ArcWB(a0, g, t)[2] = 1}}
BoxContains == done => LET fs == FlatSegs(path) IN
    \A k \in 1..4 : LET s == Sup(fs, Dirs[k]) IN
       \A i \in 1..Len(fs) : \A wp \in WayPts(fs[i][1], fs[i][2]) : LeSide(<<Dt(Dirs[k], <<wp[1], wp[2]>>), wp[3]>>, s)
LoLeHi == done => LET fs == FlatSegs(path) IN \A k \in 1..4 : LET s == Sup(fs, Dirs[k]) IN
             IF s[1] = 0 THEN s[3] > 0 /\ s[5] > 0 /\ RCmp(<<s[2], s[3]>>, <<s[4], s[5]>>) <= 0 ELSE s[3] > 0 /\ s[5] > 0 /\ s[4] >= 0
\* every exact side is attained: by a vertex, by a quadratic that is tangent to the side line (discriminant form, an
\* independent statement of the extremum), by an axis-extreme lattice point on a lattice arc; chord arcs by construction
Touched == (done /\ ~\E j \in 1..Len(path) : \E i \in 1..Len(path[j].segs) : path[j].segs[i].k = "C") =>
    LET fs == FlatSegs(path) IN
    \A k \in 1..4 : LET s == Sup(fs, Dirs[k]) d == Dirs[k] IN
       (s[1] = 0 /\ RCmp(<<s[2], s[3]>>, <<s[4], s[5]>>) = 0) =>
          LET n == s[2] m == s[3] IN \E i \in 1..Len(fs) : LET a0 == fs[i][1] g == fs[i][2] IN
             \/ m * Dt(d, a0) = n \/ m * Dt(d, g.p) = n
             \/ (g.k = "Q" /\ LET s0 == Dt(d, a0) s1 == Dt(d, g.c1) s2 == Dt(d, g.p) IN
                                 (s0 - s1) * (s2 - s1) > 0 /\ (m * s0 - n) * (m * s2 - n) = (m * s1 - n) * (m * s1 - n))
             \/ (g.k = "A" /\ g.rot = 0 /\ m * Dt(d, AxisExt(g, d)) = n /\ BEllF(g, AxisExt(g, d)) = 0 /\ ArcWB(a0, g, AxisExt(g, d))[2] = 1)
             \/ (g.k = "A" /\ g.rot = 3)
\* the two independent decisions "extreme point on the arc" agree on axis-parallel lattice arcs
ArcTwoWays == done => LET fs == FlatSegs(path) IN
    \A i \in 1..Len(fs) : (IsArc(fs, i) /\ fs[i][2].rot = 0) => \A k \in 1..4 : ArcOnExt(fs[i][1], fs[i][2], Dirs[k]) = ArcOnExtWB(fs[i][1], fs[i][2], Dirs[k])
\* the box of the mapped path is the mapped box (sides compared as numbers)
BoxEquivariant == done => LET B == BoxOf(path) IN
    \A e \in McSyms : LET B2 == BoxOf(MapPath(e, path)) M == MapBox(e, B) IN \A k \in 1..4 : SideEq(B2[k].v, M[k].v)
\* a mapped lattice arc is still a lattice arc of the mapped ellipse
MapKeepsArcs == done => \A e \in McSyms : LET q == MapPath(e, path) IN
    \A j \in 1..Len(q) : \A i \in 1..Len(q[j].segs) : LET g == q[j].segs[i] a0 == SegStart(q[j], i) IN
       (g.k = "A" /\ g.rot # 3) => BEllF(g, a0) = 0 /\ BEllF(g, g.p) = 0
=============================================================================
