--------------------------- MODULE Trace_GState ---------------------------
(* Trace validation for C12: the bytes written by the real pdf / ps / svg back-ends, lexed into one  *)
(* event per operator (element) by harness/internal/oracle/gslex.go and interleaved with the          *)
(* Request events of the driver, are consumed by the interpreters of GState.  The property Conform    *)
(* (every performed paint equals the next requested paint; no unknown operator; balanced save /        *)
(* restore; nothing missing at END) is evaluated after every event.                                    *)
(*   Strict = TRUE : Conform is an INVARIANT; TLC stops at the first event that violates it.          *)
(*   Strict = FALSE: diagnostic variant built from the SAME actions: a violation prints an error      *)
(*                   record (program, event, reason, requested and performed paint, scenario          *)
(*                   features) and the rest of that program is skipped, so that one pass reports all  *)
(*                   diverging programs.                                                               *)
EXTENDS GState
CONSTANT Strict
Trace == ndJsonDeserialize("trace_gstate.ndjson")
VARIABLES mode, nerr
tvars == <<mvars, mode, nerr>>
TEv == Trace[l]
THas == l <= Len(Trace)
Others == UNCHANGED <<mprog, mlang, mtrace, gprog, gdone>>

BriefP(p) == [kind |-> p.kind, subs |-> p.subs, og |-> p.og, rule |-> p.rule, col |-> p.col, a |-> p.a, w |-> p.w, lin |-> p.lin,
              cap |-> p.cap, jk |-> p.jk, ml |-> p.ml, dash |-> p.dash, ph |-> p.ph, ko |-> p.ko, o |-> p.o, fo |-> p.fo, so |-> p.so, onz |-> p.onz, ou |-> p.ou, ounz |-> p.ounz, F |-> p.F]
BriefE(i) == IF i < 1 \/ i > Len(queue) THEN [kind |-> "none"]
             ELSE LET e == queue[i] IN [kind |-> e.kind, draw |-> e.draw, geom |-> e.geom, rule |-> e.rule, col |-> e.col, a |-> e.a, pen |-> e.pen,
                                        cap |-> e.cap, jk |-> e.jk, ml |-> e.ml, dash |-> e.dash, ph |-> e.ph, sim |-> e.sim, F |-> e.F]
ErrCore == [pid |-> pid, be |-> be, why |-> Why, idx |-> FailIdx, exp |-> BriefE(FailIdx),
            got |-> [i \in 1..Len(painted) |-> BriefP(painted[i])], feats |-> Feats(FailIdx)]

\* The property is judged on the state reached by the previous event (as an invariant is).
Drop == IF TEv.op = "BEGIN" THEN Begin(TEv) /\ mode' = "run" ELSE UNCHANGED ivars /\ mode' = "skip"
TStep == /\ mode = "run" /\ (Conform \/ Strict) /\ l' = l + 1 /\ Others /\ nerr' = nerr /\ mode' = "run"
         /\ IF TEv.op = "EOF" THEN UNCHANGED ivars ELSE Interp(TEv)
TReject == /\ mode = "run" /\ ~Conform /\ ~Strict /\ l' = l + 1 /\ Others /\ nerr' = nerr + 1
           /\ PrintT("@@" \o ToJson([ev |-> l - 1, op |-> Trace[l - 1].op, e |-> ErrCore]))
           /\ Drop
TSkip == /\ mode = "skip" /\ l' = l + 1 /\ Others /\ nerr' = nerr /\ Drop
TInit == IInit /\ l = 1 /\ Idle /\ mode = "run" /\ nerr = 0
TNext == THas /\ (TStep \/ TReject \/ TSkip)
TSpec == TInit /\ [][TNext]_tvars
\* in the diagnostic variant the state after a rejected event is not required to conform
TConform == (mode = "run") => Conform
TraceAccepted == TLCGet("stats").diameter - 1 = Len(Trace)
=============================================================================
