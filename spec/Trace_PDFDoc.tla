---------------------------- MODULE Trace_PDFDoc ----------------------------
(* Trace validation for C13.  The driver (harness/internal/props/c13) executes document programs  *)
(* on the real renderers/pdf writer through a counting io.Writer and parses the produced bytes     *)
(* with the independent reader.  Per document the trace holds                                      *)
(*   NEW   : the program, options and metadata request                                             *)
(*   CALL  : one event per program slot, with the objects whose bytes were written during the call *)
(*   CLOSE : the objects written by Close, the parsed document record, and the strings the layout   *)
(*           asked to show in standard (WinAnsi) fonts                                             *)
(* Every event is consumed by the corresponding action of the protocol machine of PDFDoc (Step /   *)
(* Close).  At CLOSE the validity predicates (the property) are evaluated on the record together    *)
(* with the request; the set of failing signatures is printed.  The comparison of what each call    *)
(* wrote with the machine's prediction binds the protocol model to the code; a disagreement there   *)
(* is printed as "layout" (model drift - not a verdict: the property only demands validity).        *)
EXTENDS PDFDoc
Trace == ndJsonDeserialize("trace_pdfdoc.ndjson")
VARIABLE l
tvars == <<vars, l>>
Ev == Trace[l]
Is(ops) == l <= Len(Trace) /\ Ev.op \in ops /\ l' = l + 1

Note(cond, x) == cond => PrintT("@@" \o ToJson(x))

TNew == /\ Is({"NEW"})
        /\ opts' = Ev.opts /\ prog' = Ev.prog /\ info' = Ev.info /\ infoAt' = Ev.infoAt
        /\ pc' = 1 /\ nobj' = 3 /\ defs' = <<>> /\ offs' = <<0, 0, 0>> /\ wrote' = <<>> /\ pg' = EmptyPage /\ done' = <<>>
        /\ fH' = <<>> /\ fV' = <<>> /\ fS' = <<>> /\ ims' = <<>>

LayoutObs == Note(Ev.defs # wrote'[Len(wrote')], [id |-> Ev.id, layout |-> pc, model |-> wrote'[Len(wrote')], file |-> Ev.defs])

TCall == Is({"CALL"}) /\ Step /\ LayoutObs

PagesObs == LET d == Ev.doc IN
            Note(~(/\ Len(d.pages) = Len(done')
                   /\ \A i \in 1..Len(done') : i <= Len(d.pages) =>
                         /\ d.pages[i].n = done'[i].n
                         /\ Len(d.pages[i].res.font) = done'[i].nfont
                         /\ Len(d.pages[i].res.xobj) = done'[i].nxobj
                         /\ d.pages[i].annots = done'[i].annots),
                 [id |-> Ev.id, layout |-> 0, model |-> done', file |-> <<>>])

TClose == /\ Is({"CLOSE"}) /\ Close /\ LayoutObs /\ PagesObs
          /\ LET f == Diag(Ev.doc, Request(info)) \cup InShownTextVerbatimDiag(Ev.doc, Ev.want) IN Note(f # {}, [id |-> Ev.id, fails |-> f])

TInit == /\ l = 1
         /\ opts = OneTrue(TRUE) /\ prog = <<>> /\ info = Mixed /\ infoAt = 0
         /\ pc = 2 /\ nobj = 3 /\ defs = <<>> /\ offs = <<0, 0, 0>> /\ wrote = <<>> /\ pg = EmptyPage /\ done = <<>>
         /\ fH = <<>> /\ fV = <<>> /\ fS = <<>> /\ ims = <<>>
TNext == TNew \/ TCall \/ TClose
TSpec == TInit /\ [][TNext]_tvars
TraceAccepted == TLCGet("stats").diameter - 1 = Len(Trace)
=============================================================================
