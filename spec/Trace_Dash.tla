----------------------------- MODULE Trace_Dash -----------------------------
(* Trace validation for C05.  The harness (harness/internal/props/c05) executes seeded random calls   *)
(* on the real library and logs one event per call:                                                  *)
(*   dash : canvas.Path.Dash(off, d...) on a path whose sub-paths have lengths subs[j].L (integers   *)
(*          in the event's unit) ; obs = the returned pieces as arc-length intervals per sub-path,   *)
(*          measured by the independent oracle, in 1/q units ; ord = pieces came in path order ;     *)
(*          same = the caller's slice d and the input path are unchanged after the call              *)
(*   set  : Context.SetDashes(off, d...)                                                             *)
(*   draw : Context.DrawPath of a path ; the recording renderer saw stroke (bool), Dashes d2 and     *)
(*          DashOffset off2 ; kept = the slice handed to SetDashes is unchanged after the call       *)
(* Every event is consumed by the action DashC of Dash (the whole call as one step); the intervals   *)
(* it computes (out') are compared with the observation.  A draw event is judged by its MEANING: the *)
(* intervals that (stroke, d2, off2) denote must be the intervals of the pattern that was set.       *)
(* Strict = TRUE : a wrong observation disables the action (the trace is rejected at that event).    *)
(* Strict = FALSE: the verdict of every wrong event is printed with the expectation, so that the     *)
(* harness can turn it into a call-level replay; the trace is then always consumed to its end.      *)
EXTENDS Dash
CONSTANT Strict
Trace == ndJsonDeserialize("trace_dash.ndjson")
VARIABLES l, ctxd
tvars == <<vars, l, ctxd>>
Ev == Trace[l]
Is(ops) == l <= Len(Trace) /\ Ev.op \in ops /\ l' = l + 1

Near(a, b, tol) == a - b <= tol /\ b - a <= tol
IvMatch(obs, exp, q, tol) ==
    /\ Len(obs) = Len(exp)
    /\ \A j \in 1..Len(exp) :
         /\ Len(obs[j]) = Len(exp[j])
         /\ \A m \in 1..Len(exp[j]) : Near(obs[j][m][1], q * exp[j][m][1], tol) /\ Near(obs[j][m][2], q * exp[j][m][2], tol)
Nothing(p) == [j \in 1..Len(p) |-> <<>>]
Judge(v, exp, p, dd, o) ==
    /\ (Strict => v = {})
    /\ ((~Strict /\ v # {}) => PrintT("@@" \o ToJson([l |-> l, why |-> v, exp |-> exp, f |-> Features(p, dd, o)])))

TDash == /\ Is({"dash"}) /\ DashC(Ev.subs, Ev.d, Ev.off) /\ UNCHANGED ctxd
         /\ Judge((IF IvMatch(Ev.obs, out', Ev.q, Ev.tol) THEN {} ELSE {"intervals"})
                  \cup (IF Ev.ord THEN {} ELSE {"order"}) \cup (IF Ev.same THEN {} ELSE {"arg-mutated"}),
                  out', Ev.subs, Ev.d, Ev.off)
TSet == /\ Is({"set"}) /\ ctxd' = [d |-> Ev.d, off |-> Ev.off] /\ UNCHANGED vars
TDraw == /\ Is({"draw"}) /\ DashC(Ev.subs, ctxd.d, ctxd.off) /\ UNCHANGED ctxd
         /\ LET eff == IF Ev.stroke THEN Expected(Ev.subs, Ev.d2, Ev.off2) ELSE Nothing(Ev.subs)
                \* diagnosis of a wrong decision (for the signature only): the renderer was told "solid" or "no stroke"
                \* although the pattern cuts the path / the dashes handed over are the right ones at a wrong phase
                kind == IF eff = out' THEN {}
                        ELSE IF Ev.d2 = <<>> \/ ~Ev.stroke THEN {"decision:shortcut"}
                        ELSE IF \E sh \in (0 - Sum(ctxd.d))..Sum(ctxd.d) : Expected(Ev.subs, Ev.d2, Ev.off2 + sh) = out' THEN {"decision:phase-shift"}
                        ELSE {"decision"}
            IN Judge(kind \cup (IF Ev.kept THEN {} ELSE {"ctx-mutated"}), out', Ev.subs, ctxd.d, ctxd.off)

TInit == /\ path = <<>> /\ d = <<>> /\ off = 0 /\ k = 1 /\ pos = -1 /\ i = 0 /\ rem = 0 /\ cur = <<>> /\ out = <<>> /\ done = TRUE
         /\ l = 1 /\ ctxd = [d |-> <<>>, off |-> 0]
TNext == TDash \/ TSet \/ TDraw
TSpec == TInit /\ [][TNext]_tvars
\* every sub-path's intervals are well formed in every state the trace drives the specification through
TraceInv == \A j \in 1..Len(path) : SortedIv(out[j], path[j].L)
TraceAccepted == TLCGet("stats").diameter - 1 = Len(Trace)
=============================================================================
