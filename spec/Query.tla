------------------------------- MODULE Query -------------------------------
(* C06: Windings / Crossings / Contains / CCW / Filling agree with the winding number.               *)
(*                                                                                                  *)
(* Scenario = a lattice curve path (LatCurves) + every query point of the 2x-refined lattice in a   *)
(* box around it.  For each query point the spec computes, exactly:                                 *)
(*    w   the winding number of the implicitly closed contours                                      *)
(*    b   0 = off the boundary, 1 = ON the boundary, 2 = undecided (inside a cubic's sub-hull, or    *)
(*        on the implicit closing edge of an open contour): nothing is demanded there               *)
(*    x   the number of crossings of the ray s -> (+inf, s.y) with the path when the ray is in       *)
(*        general position; -2 = only the parity (= parity of w) and the bound x >= |w| are known;    *)
(*        -1 = unconstrained (degenerate ray: the statement does not define the count)               *)
(*    f   ray feature bits (exact predicates, used for steering and for known-finding signatures)    *)
(*        1 RayThroughVertex, 2 RayAlongHorizontalEdge, 4 RayTangentAtVertex, 8 RayTangentCurve,     *)
(*        16 VertexLevelBehind (a vertex level with s but not on the ray), 32 RayThroughOpenEnd,     *)
(*        64 RayThroughZeroTangentEnd (end of a cubic whose control point coincides with it),        *)
(*        1024 RayThroughCubicEnd (a vertex on the ray is an end point of a cubic Bezier),            *)
(*        2048 RayLevelWithCubicInflection (the ray is level with a horizontal inflection point),     *)
(*        128 (boundary points only) the point itself is such a zero-tangent end,                    *)
(*        256 (boundary points only) the point lies on a cubic (end point or dyadic point),          *)
(*        512 (boundary points only) the point lies on a quadratic Bezier (end points included)      *)
(* cf = per contour: 1 open, 2 the start point is the bottom-right-most vertex (the vertex CCW uses),  *)
(*      4 it is the top-right-most vertex (bottom-right-most after a reflection in y)                 *)
(* sf = per contour the feature bits of the ray from its start point with respect to the OTHER       *)
(*      contours (the rays Filling casts)                                                            *)
(*    wd  the winding number counted over the drawn segments only (open contours NOT closed)        *)
(*    g   feature bits 1, 2, 64 for the ray direction (4,-3): the +x ray after the embedding that      *)
(*        rotates by atan(3/4)                                                                        *)
(* and per path: ccw (orientation of the first contour if it is simple) and fill (per contour and    *)
(* fill rule, if all contours are simple and pairwise disjoint).                                     *)
EXTENDS CurveGen, Json, Randomization

CONSTANTS N,        \* control lattice 0..N
          K,        \* vertices per polygon contour / pieces per curve contour
          NC,       \* contours
          Mode,     \* "polyall" | "polyrand" | "curves" (CurveGen templates) | "special" (the SpecialCtrs family below)
          Kinds,    \* curves: subset of {"L","Q","C","A"} the segments are drawn from
          Num       \* random: scenarios per RandomSubset

SC == 2                                   \* query lattice = control lattice refined by 2
Pt == (0..N) \X (0..N)
QLo == -2
QHi == 2 * N + 2
QW == QHi - QLo + 1
NQ == QW * QW
QPt(i) == <<QLo + ((i - 1) % QW), QLo + ((i - 1) \div QW)>>

SumOver(S, f(_)) == LET RECURSIVE su(_) su(T) == IF T = {} THEN 0 ELSE LET x == CHOOSE y \in T : TRUE IN f(x) + su(T \ {x}) IN su(S)
Poly(c) == Ctr(c[1], [i \in 1..(Len(c) - 1) |-> Ln(c[i + 1])], TRUE)

\* ---- a deterministic family of contours that are simple by construction and hit two special mechanisms ------------
\* (needs N >= 8).  (1) S-shaped cubics with a HORIZONTAL INFLECTION POINT on the lattice: control points
\* (x0, y0 - e b) (x0 + a, y0 + e b) (x0 + 2a, y0 - e b) (x0 + 3a, y0 + e b): y'(1/2) = y''(1/2) = 0 at (x0 + 3a/2, y0); the
\* curve is a graph over x, closed by a box above or below it, traversed in either direction.  A ray level with the
\* inflection point crosses the curve there although it is parallel to the tangent.  (2) contours whose right-most
\* vertex is a CUSP: a curve arrives moving right with a horizontal tangent and a line (or a curve of other curvature,
\* or the closing line) leaves to the left along the same tangent; mirror images and reversed traversals.
SCubic(x0, y0, a, b, e, rev, up) ==
    LET p0 == <<x0, y0 - e * b>> p1 == <<x0 + a, y0 + e * b>> p2 == <<x0 + 2 * a, y0 - e * b>> p3 == <<x0 + 3 * a, y0 + e * b>>
        yt == IF up THEN y0 + b + 1 ELSE y0 - b - 1
    IN IF rev THEN Ctr(p3, <<Cb(p2, p1, p0), Ln(<<p0[1], yt>>), Ln(<<p3[1], yt>>)>>, TRUE)
       ELSE Ctr(p0, <<Cb(p1, p2, p3), Ln(<<p3[1], yt>>), Ln(<<p0[1], yt>>)>>, TRUE)
\* cusp shapes: o = offset, r = size, m = +1 / -1 mirrors in y (and flips every sweep flag)
Cusp(kind, o, r, m) ==
    LET T(x, y) == <<o[1] + x, o[2] + m * y>>
        sw(f) == IF m = 1 THEN f ELSE 1 - f
        arc(cx, cy, rx, ry, f, ex, ey) == Ar(T(cx, cy), <<rx, ry>>, 0, 0, sw(f), T(ex, ey))
    IN CASE kind = 1 -> Ctr(T(0, 0), <<arc(r, 0, r, r, 0, r, r), Ln(T(0, r))>>, TRUE)                         \* arc in, line out
         [] kind = 2 -> Ctr(T(0, 0), <<Qd(T(0, r), T(r, r)), Ln(T(0, r))>>, TRUE)                            \* quadratic in, line out
         [] kind = 3 -> Ctr(T(0, 0), <<Cb(T(0, r - 1), T(1, r), T(r, r)), Ln(T(0, r))>>, TRUE)               \* cubic in, line out
         [] kind = 4 -> Ctr(T(0, 0), <<arc(2 * r, 0, 2 * r, r, 0, 2 * r, r), Ln(T(0, r))>>, TRUE)            \* elliptical arc in, line out
         [] kind = 5 -> Ctr(T(0, r), <<Ln(T(0, 0)), arc(r, 0, r, r, 0, r, r)>>, TRUE)                         \* arc in, closing line out
         [] kind = 6 -> Ctr(T(0, r), <<Ln(T(r, r)), arc(r, 0, r, r, 1, 0, 0)>>, TRUE)                         \* line in, arc out
         [] kind = 7 -> Ctr(T(0, 0), <<arc(2 * r, 0, 2 * r, 2 * r, 0, 2 * r, 2 * r), arc(2 * r, r, r, r, 1, r, r)>>, TRUE)   \* big arc in, small arc out
         [] kind = 8 -> Ctr(T(0, 0), <<Ln(T(r, r)), arc(2 * r, r, r, r, 0, 2 * r, 2 * r), arc(2 * r, 0, 2 * r, 2 * r, 1, 0, 0)>>, TRUE)  \* small arc in, big arc out
         [] kind = 9 -> Ctr(T(0, r), <<Ln(T(0, 0)), Qd(T(0, r), T(r, r))>>, TRUE)                            \* quadratic in, closing line out
SpecialCtrs ==
    {SCubic(1, 3, a, b, e, rev, up) : a \in {1, 2}, b \in {1, 2}, e \in {-1, 1}, rev \in BOOLEAN, up \in BOOLEAN}
    \cup {Cusp(k, o, r, m) : k \in {1, 2, 3, 5, 6, 9}, o \in {<<1, 4>>, <<3, 4>>}, r \in {2, 3, 4}, m \in {-1, 1}}
    \cup {Cusp(4, <<1, 4>>, r, m) : r \in {2, 3}, m \in {-1, 1}}
    \cup {Cusp(k, o, r, m) : k \in {7, 8}, o \in {<<1, 4>>, <<2, 4>>}, r \in {1, 2}, m \in {-1, 1}}

\* three-contour Filling scenarios (N >= 8): a big square C, a square B inside it and a triangle A whose FIRST vertex lies on
\* B's boundary (on an edge or at a corner, A outside or inside B), every orientation of the three and every list order.
Fill3Paths ==
    LET rv(c, fl) == IF fl THEN <<c[1]>> \o [i \in 1..(Len(c) - 1) |-> c[Len(c) + 1 - i]] ELSE c
        cc == << <<0, 0>>, <<8, 0>>, <<8, 8>>, <<0, 8>> >>
        bb == << <<2, 2>>, <<5, 2>>, <<5, 5>>, <<2, 5>> >>
        as == { << <<5, 3>>, <<7, 2>>, <<7, 5>> >>, << <<2, 3>>, <<4, 3>>, <<4, 4>> >>,
                << <<5, 5>>, <<7, 5>>, <<7, 7>> >>, << <<2, 2>>, <<4, 2>>, <<4, 3>> >> }
        perms == { <<1, 2, 3>>, <<1, 3, 2>>, <<2, 1, 3>>, <<2, 3, 1>>, <<3, 1, 2>>, <<3, 2, 1>> }
    IN { LET t == << Poly(rv(a, fa)), Poly(rv(bb, fb)), Poly(rv(cc, fc)) >> IN <<t[pm[1]], t[pm[2]], t[pm[3]]>> :
            a \in as, fa \in BOOLEAN, fb \in BOOLEAN, fc \in BOOLEAN, pm \in perms }

VARIABLES path, done
vars == <<path, done>>

PolySet == [1..K -> Pt]
FamSet == 1..9
PathChoice ==
    CASE Mode = "polyall"  -> {<<Poly(c)>> : c \in PolySet}
      [] Mode = "polyrand" -> IF NC = 1 THEN {<<Poly(c)>> : c \in RandomSubset(Num, PolySet)}
                              ELSE {<<Poly(c), Poly(d)>> : c \in RandomSubset(Num, PolySet), d \in RandomSubset(3, PolySet)}
      [] Mode = "curves"   -> IF NC = 1 THEN {<<DecodeCtr(GenVec(sd), N, Kinds, FamSet)>> : sd \in RandomSubset(Num, GenSeeds)}
                              ELSE {<<DecodeCtr(GenVec(sd), N, Kinds, FamSet), DecodeCtr(GenVec(se + 7919 * (sd % 3)), N, Kinds \cup {"L"}, FamSet)>> :
                                        sd \in RandomSubset(Num, GenSeeds), se \in RandomSubset(2, 1..1000000000)}

      [] Mode = "special"  -> {<<c>> : c \in SpecialCtrs}
      [] Mode = "fill3"    -> Fill3Paths

P == ScalePath(SC, path)

\* ---- ray features (ray from s towards +x) --------------------------------------------------------------------
Ahead(s, v) == v[2] = s[2] /\ v[1] > s[1]
\* vertical direction in which a segment leaves its start point a: +1 up, -1 down, 0 level (horizontal line)
Fst3(x, y, z) == IF x # 0 THEN Sgn(x) ELSE IF y # 0 THEN Sgn(y) ELSE Sgn(z)
ArcDirY(g, at, dir) ==      \* travelling in direction dir (+1 ccw, -1 cw) through the point at of the ellipse of g
    LET u == EU(g, at) v == EV(g, at) a == g.c2[1] b == g.c2[2]
        ty == IF g.rot = 0 THEN u * b * b ELSE 3 * (-v * a * a) + 4 * (u * b * b)
    IN IF ty # 0 THEN dir * Sgn(ty) ELSE -Sgn(at[2] - g.c1[2])
LeaveY(a, g) == CASE g.k = "L" -> Sgn(g.p[2] - a[2])
                  [] g.k = "Q" -> Fst3(g.c1[2] - a[2], g.p[2] - a[2], 0)
                  [] g.k = "C" -> Fst3(g.c1[2] - a[2], g.c2[2] - a[2], g.p[2] - a[2])
                  [] g.k = "A" -> ArcDirY(g, a, IF g.sw = 1 THEN 1 ELSE -1)
\* vertical side from which a segment arrives at its end point p (= direction of leaving for the reversed segment)
ArriveY(a, g) == CASE g.k = "L" -> Sgn(a[2] - g.p[2])
                   [] g.k = "Q" -> Fst3(g.c1[2] - g.p[2], a[2] - g.p[2], 0)
                   [] g.k = "C" -> Fst3(g.c2[2] - g.p[2], g.c1[2] - g.p[2], a[2] - g.p[2])
                   [] g.k = "A" -> ArcDirY(g, g.p, IF g.sw = 1 THEN -1 ELSE 1)
\* the drawn segments of a contour as <<start, seg>> pairs, Close edge included
Drawn(c) == LET n == Len(c.segs)
                base == [i \in 1..n |-> <<SegStart(c, i), c.segs[i]>>]
            IN IF c.cl /\ EndPt(c) # c.s THEN Append(base, <<EndPt(c), Ln(c.s)>>) ELSE base
NonZero(d) == SelectSeq(d, LAMBDA e : ~(e[2].k = "L" /\ e[1] = e[2].p))
\* a vertex on the ray at which the contour stays on one side of the ray (arrives from and leaves to the same side);
\* d = NonZero(Drawn(c))
TangentVertexD(d, s) ==
    LET n == Len(d)
        closedLoop == n > 0 /\ d[n][2].p = d[1][1]
    IN \E i \in 1..n :
          LET j == IF i = n THEN 1 ELSE i + 1 IN
          /\ (i < n \/ closedLoop) /\ Ahead(s, d[i][2].p)
          /\ LET x == ArriveY(d[i][1], d[i][2]) y == LeaveY(d[j][1], d[j][2]) IN x # 0 /\ x = y
\* an end of an open contour on the ray (only one drawn segment meets the ray there)
OpenEndD(d, s) == LET n == Len(d) IN n > 0 /\ d[n][2].p # d[1][1] /\ (Ahead(s, d[1][1]) \/ Ahead(s, d[n][2].p))
\* interior tangency of the ray with a curve
QuadTanY(a, g, s) == LET den == a[2] - 2 * g.c1[2] + g.p[2] IN
                     /\ (a[2] - g.c1[2]) * (g.p[2] - g.c1[2]) > 0        \* y-extremum strictly inside (0,1)
                     /\ (a[2] - s[2]) * den = (a[2] - g.c1[2]) * (a[2] - g.c1[2])
ArcTanY(a, g, s) == g.rot = 0 /\ \E sg \in {-1, 1} :
                     LET t == <<g.c1[1], g.c1[2] + sg * g.c2[2]>> IN
                     t # a /\ t # g.p /\ ArcWB(a, g, t)[2] = 1 /\ t[2] = s[2] /\ t[1] > s[1]
CubLevel(a, g, s) == LET ys == {a[2], g.c1[2], g.c2[2], g.p[2]} IN SetMin(ys) <= s[2] /\ s[2] <= SetMax(ys)
CubMonoY(a, g) == \/ (a[2] <= g.c1[2] /\ g.c1[2] <= g.c2[2] /\ g.c2[2] <= g.p[2] /\ a[2] < g.p[2])
                  \/ (a[2] >= g.c1[2] /\ g.c1[2] >= g.c2[2] /\ g.c2[2] >= g.p[2] /\ a[2] > g.p[2])
TangentCurveC(c, s) == \E i \in 1..Len(c.segs) : LET a == SegStart(c, i) g == c.segs[i] IN
                         \/ (g.k = "Q" /\ QuadTanY(a, g, s))
                         \/ (g.k = "A" /\ ArcTanY(a, g, s))
                         \/ (g.k = "C" /\ CubLevel(a, g, s) /\ ~CubMonoY(a, g))

\* the ray is level with a HORIZONTAL INFLECTION point of the cubic cb = <<p0, p1, p2, p3>>: y(t) = y* + a (t - t0)^3 with
\* 0 < t0 < 1 and y* = s.y.  Power basis a t^3 + b t^2 + c t + d: y' has a double root iff b^2 = 3 a c, t0 = -b/(3a),
\* y(t0) = d - b^3 / (27 a^2).  The curve crosses the ray there although it is parallel to it.
InflLevel(cb, s) == LET y0 == cb[1][2] y1 == cb[2][2] y2 == cb[3][2] y3 == cb[4][2]
                        a == -y0 + 3 * y1 - 3 * y2 + y3 b == 3 * y0 - 6 * y1 + 3 * y2 c == -3 * y0 + 3 * y1
                    IN /\ a # 0 /\ b * b = 3 * a * c /\ (-b) * a > 0 /\ Abs(b) < 3 * Abs(a)
                       /\ 27 * a * a * (s[2] - y0) = -(b * b * b)
\* number of junctions between consecutive drawn segments (d = PData.dr) that lie on the ray ahead of s
VerticesAhead(dr, s) == SumOver(1..Len(dr), LAMBDA j : LET d == dr[j] n == Len(d) IN
                            Cardinality({i \in 1..n : (i < n \/ d[n][2].p = d[1][1]) /\ Ahead(s, d[i][2].p)}))
\* path-level data computed once per scenario: vertices, straight edges, non-degenerate drawn segments per contour
ZeroTanEnds(c) == UNION {LET a == SegStart(c, i) g == c.segs[i] IN
                           IF g.k # "C" THEN {} ELSE (IF g.c1 = a THEN {a} ELSE {}) \cup (IF g.c2 = g.p THEN {g.p} ELSE {}) : i \in 1..Len(c.segs)}
PData(p) == [vs |-> PathVerts(p), ls |-> PathLines(p), dr |-> [j \in 1..Len(p) |-> NonZero(Drawn(p[j]))],
             zt |-> UNION {ZeroTanEnds(p[j]) : j \in 1..Len(p)},
             ce |-> UNION {UNION {{SegStart(p[j], i), p[j].segs[i].p} : i \in {k \in 1..Len(p[j].segs) : p[j].segs[k].k = "C"}} : j \in 1..Len(p)},
             quads |-> UNION {{<<SegStart(p[j], i), p[j].segs[i].c1, p[j].segs[i].p>> : i \in {k \in 1..Len(p[j].segs) : p[j].segs[k].k = "Q"}} : j \in 1..Len(p)},
             cubs |-> UNION {{<<SegStart(p[j], i), p[j].segs[i].c1, p[j].segs[i].c2, p[j].segs[i].p>> : i \in {k \in 1..Len(p[j].segs) : p[j].segs[k].k = "C"}} : j \in 1..Len(p)},
             circ |-> UNION {{<<p[j].segs[i].c1, p[j].segs[i].c2[1]>> : i \in {k \in 1..Len(p[j].segs) : p[j].segs[k].k = "A" /\ p[j].segs[k].c2[1] = p[j].segs[k].c2[2]}} : j \in 1..Len(p)}]
\* s is a (dyadic) point of a cubic segment
OnCubic(p, s) == \E j \in 1..Len(p) : \E i \in 1..Len(p[j].segs) : p[j].segs[i].k = "C" /\ CubWB(SegStart(p[j], i), p[j].segs[i], s)[2] = 1
\* s is a point of a quadratic segment (end points included)
OnQuad(p, s) == \E j \in 1..Len(p) : \E i \in 1..Len(p[j].segs) : p[j].segs[i].k = "Q" /\ QuadWB(SegStart(p[j], i), p[j].segs[i], s)[2] = 1
\* features of the ray from s in the lattice direction d (vertex / straight-edge based only)
AheadD(s, d, v) == Cross(s, PAdd(s, d), v) = 0 /\ (d[1] * (v[1] - s[1]) + d[2] * (v[2] - s[2])) > 0
FeatDir(pd, s, d) ==
    LET f1 == \E v \in pd.vs : AheadD(s, d, v)
        f2 == \E e \in pd.ls : Cross(s, PAdd(s, d), e[1]) = 0 /\ Cross(s, PAdd(s, d), e[2]) = 0 /\ (AheadD(s, d, e[1]) \/ AheadD(s, d, e[2]))
        f64 == \E v \in pd.zt : AheadD(s, d, v)
        f1024 == \E v \in pd.ce : AheadD(s, d, v)
        \* the line of the ray touches the circle of a circular arc (distance centre-line = radius)
        nn(v) == d[1] * v[2] - d[2] * v[1]            \* coordinate along the normal of the ray
        f8 == \/ \E cr \in pd.circ : LET x == Cross(s, PAdd(s, d), cr[1]) IN x * x = (d[1] * d[1] + d[2] * d[2]) * cr[2] * cr[2]
              \/ \E qd \in pd.quads : LET a == nn(qd[1]) - 2 * nn(qd[2]) + nn(qd[3]) b == 2 * (nn(qd[2]) - nn(qd[1])) c == nn(qd[1]) - nn(s)
                                      IN a # 0 /\ b * b = 4 * a * c /\ (-b) * a > 0 /\ Abs(b) < 2 * Abs(a)       \* double root strictly inside (0,1)
              \/ \E cb \in pd.cubs : LET ns == {nn(cb[i]) : i \in 1..4} IN
                                      /\ SetMin(ns) <= nn(s) /\ nn(s) <= SetMax(ns)
                                      /\ ~((nn(cb[1]) <= nn(cb[2]) /\ nn(cb[2]) <= nn(cb[3]) /\ nn(cb[3]) <= nn(cb[4]) /\ nn(cb[1]) < nn(cb[4]))
                                           \/ (nn(cb[1]) >= nn(cb[2]) /\ nn(cb[2]) >= nn(cb[3]) /\ nn(cb[3]) >= nn(cb[4]) /\ nn(cb[1]) > nn(cb[4])))
    IN (IF f1 THEN 1 ELSE 0) + (IF f2 THEN 2 ELSE 0) + (IF f8 THEN 8 ELSE 0) + (IF f64 THEN 64 ELSE 0) + (IF f1024 THEN 1024 ELSE 0)
FeatD(p, pd, s) ==
    LET f1 == \E v \in pd.vs : Ahead(s, v)
        f2 == \E e \in pd.ls : e[1][2] = s[2] /\ e[2][2] = s[2] /\ MaxI(e[1][1], e[2][1]) > s[1]
        f4 == f1 /\ \E j \in 1..Len(p) : TangentVertexD(pd.dr[j], s)
        f8 == \E j \in 1..Len(p) : TangentCurveC(p[j], s)
        f16 == \E v \in pd.vs : v[2] = s[2] /\ v[1] < s[1]
        f32 == f1 /\ \E j \in 1..Len(p) : OpenEndD(pd.dr[j], s)
        f64 == \E v \in pd.zt : Ahead(s, v)
        f1024 == \E v \in pd.ce : Ahead(s, v)
        f2048 == \E cb \in pd.cubs : InflLevel(cb, s)
    IN (IF f1 THEN 1 ELSE 0) + (IF f2 THEN 2 ELSE 0) + (IF f4 THEN 4 ELSE 0) + (IF f8 THEN 8 ELSE 0)
       + (IF f16 THEN 16 ELSE 0) + (IF f32 THEN 32 ELSE 0) + (IF f64 THEN 64 ELSE 0) + (IF f1024 THEN 1024 ELSE 0) + (IF f2048 THEN 2048 ELSE 0)
Feat(p, s) == FeatD(p, PData(p), s)

\* ---- crossings of a ray in general position --------------------------------------------------------------------
LineX(a, b, s) == IF (a[2] < s[2] /\ s[2] < b[2] /\ Cross(a, b, s) > 0) \/ (b[2] < s[2] /\ s[2] < a[2] /\ Cross(a, b, s) < 0) THEN 1 ELSE 0
\* position key of a point of the axis-parallel ellipse, increasing counter-clockwise from the bottom point
EKey(g, q) == LET dy == q[2] - g.c1[2] ry == g.c2[2] IN
              IF q[1] > g.c1[1] \/ (q[1] = g.c1[1] /\ dy < 0) THEN dy + ry ELSE 3 * ry - dy
BetweenK(ka, kx, kb) == IF ka < kb THEN ka < kx /\ kx < kb ELSE kx > ka \/ kx < kb
ArcX(a, g, s) ==      \* rot = 0 only
    LET dy == s[2] - g.c1[2] ry == g.c2[2] f == EllF(g, s)
        ka == IF g.sw = 1 THEN EKey(g, a) ELSE EKey(g, g.p)
        kb == IF g.sw = 1 THEN EKey(g, g.p) ELSE EKey(g, a)
        hitR == Abs(dy) < ry /\ (s[1] <= g.c1[1] \/ f < 0) /\ BetweenK(ka, dy + ry, kb)
        hitL == Abs(dy) < ry /\ s[1] < g.c1[1] /\ f > 0 /\ BetweenK(ka, 3 * ry - dy, kb)
    IN (IF hitR THEN 1 ELSE 0) + (IF hitL THEN 1 ELSE 0)
\* <<count, exact>> for one drawn segment
SegX(a, g, s) == CASE g.k = "L" -> <<LineX(a, g.p, s), TRUE>>
                   [] g.k = "A" -> IF g.rot = 0 THEN <<ArcX(a, g, s), TRUE>>
                                   ELSE <<0, Abs(s[2] - g.c1[2]) > MaxI(g.c2[1], g.c2[2])>>
                   [] g.k = "Q" -> LET ys == {a[2], g.c1[2], g.p[2]} IN <<0, s[2] < SetMin(ys) \/ s[2] > SetMax(ys)>>
                   [] g.k = "C" -> <<0, ~CubLevel(a, g, s)>>
RECURSIVE SumX(_, _, _)
SumX(d, s, i) == IF i = 0 THEN <<0, TRUE>> ELSE LET r == SegX(d[i][1], d[i][2], s) t == SumX(d, s, i - 1) IN <<r[1] + t[1], r[2] /\ t[2]>>
RECURSIVE PathX(_, _, _)      \* dr = the drawn segments per contour (PData.dr)
PathX(dr, s, j) == IF j = 0 THEN <<0, TRUE>> ELSE LET d == dr[j] r == SumX(d, s, Len(d)) t == PathX(dr, s, j - 1) IN <<r[1] + t[1], r[2] /\ t[2]>>
\* winding computed a second way, by signed ray crossings (general position, lines and axis-parallel arcs only):
\* used by the model-level invariant WindingTwoWays
LineXS(a, b, s) == IF a[2] < s[2] /\ s[2] < b[2] /\ Cross(a, b, s) > 0 THEN 1 ELSE IF b[2] < s[2] /\ s[2] < a[2] /\ Cross(a, b, s) < 0 THEN -1 ELSE 0
ArcXS(a, g, s) ==
    LET dy == s[2] - g.c1[2] ry == g.c2[2] f == EllF(g, s) dir == IF g.sw = 1 THEN 1 ELSE -1
        ka == IF g.sw = 1 THEN EKey(g, a) ELSE EKey(g, g.p)
        kb == IF g.sw = 1 THEN EKey(g, g.p) ELSE EKey(g, a)
        hitR == Abs(dy) < ry /\ (s[1] <= g.c1[1] \/ f < 0) /\ BetweenK(ka, dy + ry, kb)
        hitL == Abs(dy) < ry /\ s[1] < g.c1[1] /\ f > 0 /\ BetweenK(ka, 3 * ry - dy, kb)
    IN (IF hitR THEN dir ELSE 0) - (IF hitL THEN dir ELSE 0)

\* ---- simple contours, orientation, filling ----------------------------------------------------------------------
AllLines(c) == \A i \in 1..Len(c.segs) : c.segs[i].k = "L"
PolyVerts(c) == <<c.s>> \o [i \in 1..Len(c.segs) |-> c.segs[i].p]
SimplePoly(v) == LET n == Len(v) E(i) == <<v[i], Nxt(v, i)>> IN
    /\ n >= 3 /\ \A i, j \in 1..n : i # j => v[i] # v[j]
    /\ \A i \in 1..n : ~OnSeg(E(i)[1], E(i)[2], Nxt(v, i + 1)) /\ ~OnSeg(Nxt(v, i), Nxt(v, i + 1), v[i])
    /\ \A i, j \in 1..n : (i < j /\ j # i + 1 /\ ~(i = 1 /\ j = n)) => ~SegsMeet(E(i)[1], E(i)[2], E(j)[1], E(j)[2])
ConvexCub(a, g) == LET x == Sgn(Cross(a, g.c1, g.c2)) IN
                   x # 0 /\ Sgn(Cross(g.c1, g.c2, g.p)) = x /\ Sgn(Cross(g.c2, g.p, a)) = x /\ Sgn(Cross(g.p, a, g.c1)) = x
\* curve contours that are simple by construction
SimpleCurve(c) ==
    LET n == Len(c.segs) IN
    \/ (n = 1 /\ c.segs[1].k \in {"A", "Q"} /\ SegOK(c.s, c.segs[1]))                          \* one curve + its chord
    \/ (n = 1 /\ c.segs[1].k = "C" /\ ConvexCub(c.s, c.segs[1]))
    \/ (n = 2 /\ c.segs[1].k = "A" /\ c.segs[2].k = "A" /\ c.segs[2].p = c.s /\ c.segs[1].sw = c.segs[2].sw   \* full ellipse
          /\ c.segs[1].c1 = c.segs[2].c1 /\ c.segs[1].c2 = c.segs[2].c2 /\ c.segs[1].rot = c.segs[2].rot)
    \/ (n = 2 /\ c.segs[1].k = "L" /\ c.segs[2].k = "A" /\ c.s = c.segs[2].c1 /\ c.s # c.segs[1].p)            \* pie
SimpleC(c) == IF AllLines(c) THEN SimplePoly(PolyVerts(c)) ELSE (Mode = "special" \/ SimpleCurve(c))    \* SpecialCtrs are simple by construction

\* orientation of simple contour c (scaled): +1 / -1, 0 = unknown
Orient(c) == IF ~SimpleC(c) THEN 0
             ELSE IF AllLines(c) THEN Sgn(Area2(PolyVerts(c)))
             ELSE LET ws == {CtrWB(c, QPt(i)) : i \in 1..NQ} IN
                  IF \E r \in ws : r[2] = 0 /\ r[1] > 0 THEN 1 ELSE IF \E r \in ws : r[2] = 0 /\ r[1] < 0 THEN -1 ELSE 0
\* contours pairwise disjoint (polygons only)
Disjoint(p) == \A i, j \in 1..Len(p) : i < j =>
                  /\ AllLines(p[i]) /\ AllLines(p[j])
                  /\ LET v == PolyVerts(p[i]) w == PolyVerts(p[j]) IN
                     \A a \in 1..Len(v), b \in 1..Len(w) : ~SegsMeet(v[a], Nxt(v, a), w[b], Nxt(w, b))
\* contour ci enters the interior of contour cj (polygons; all coordinates are even, so the midpoints used are lattice
\* points).  An edge e of ci meets the boundary of cj in proper crossings, at its own end points, at vertices of cj lying
\* on e, or along collinear overlaps; between two consecutive such contact points e is entirely inside or entirely outside
\* cj, so it is enough to test the end points, the contact vertices and the midpoints of every pair of them.
Intrudes(ci, cj) == LET v == PolyVerts(ci) w == PolyVerts(cj) o == Orient(cj) IN
    \/ \E a \in 1..Len(v), b \in 1..Len(w) : SegsCrossProperly(v[a], Nxt(v, a), w[b], Nxt(w, b))
    \/ \E a \in 1..Len(v) : LET pts == {v[a], Nxt(v, a)} \cup {w[b] : b \in {k \in 1..Len(w) : OnSeg(v[a], Nxt(v, a), w[k])}}
                             IN \E x \in pts, y \in pts : CtrWB(cj, Mid(x, y)) = <<o, 0>>
\* FillW: per contour <<w, wt, demanded>>: w = winding number of the region just inside the contour (own orientation +
\* windings of the other contours around its interior), demanded only if the contour is simple, no other contour enters
\* its interior (touching is allowed) and every decided query point strictly inside it sees the same winding of the
\* others; wt = the part of w contributed by contours on whose boundary the contour's START POINT lies.
FillW(p) == [j \in 1..Len(p) |->
    LET o == Orient(p[j])
        oth == (1..Len(p)) \ {j}
        polys == Len(p) = 1 \/ \A i \in 1..Len(p) : AllLines(p[i])
    IN IF o = 0 \/ ~polys \/ (\E i \in oth : Intrudes(p[i], p[j])) THEN <<0, 0, 0>>
       ELSE LET qin == {k \in 1..NQ : CtrWB(p[j], QPt(k)) = <<o, 0>> /\ \A i \in oth : CtrWB(p[i], QPt(k))[2] = 0}
                ow(k) == SumOver(oth, LAMBDA i : CtrWB(p[i], QPt(k))[1])
                vals == {ow(k) : k \in qin}
            IN IF Cardinality(vals) # 1 THEN <<0, 0, 0>>
               ELSE LET k0 == CHOOSE k \in qin : TRUE
                        touched == {i \in oth : OnContour(PolyVerts(p[i]), p[j].s)}
                    IN <<o + ow(k0), SumOver(touched, LAMBDA i : CtrWB(p[i], QPt(k0))[1]), 1>>]
FillOf(fw) == [j \in 1..Len(fw) |-> [r \in 1..4 |-> IF fw[j][3] = 0 THEN 2 ELSE IF Fills(r - 1, fw[j][1]) THEN 1 ELSE 0]]
FillExp(p) == FillOf(FillW(p))

\* one row <<w, b, x, f, wd, g>> per query point (each evaluated once: TLC does not memoise function applications)
Scenario ==
    LET pp == P
        pd == PData(pp)
        open == \E j \in 1..Len(path) : ~path[j].cl /\ EndPt(path[j]) # path[j].s
        row(s) == LET r == PathWB(pp, s)
                      f == FeatD(pp, pd, s) + (IF r[2] = 1 /\ s \in pd.zt THEN 128 ELSE 0) + (IF r[2] = 1 /\ OnCubic(pp, s) THEN 256 ELSE 0) + (IF r[2] = 1 /\ OnQuad(pp, s) THEN 512 ELSE 0)
                      \* crossings: rays in general position, and rays whose only degeneracy is that they pass through
                      \* vertices at which the boundary properly crosses them (each such vertex is one crossing)
                      x == IF open \/ r[2] # 0 \/ (f % 16) \notin {0, 1} \/ (f \div 32) % 4 # 0 \/ f >= 1024 THEN -1
                           ELSE IF (f % 2) = 1 THEN LET c == PathX(pd.dr, s, Len(pp)) IN IF c[2] THEN c[1] + VerticesAhead(pd.dr, s) ELSE -2
                           ELSE LET c == PathX(pd.dr, s, Len(pp)) IN IF c[2] THEN c[1] ELSE -2
                      wd == IF open /\ r[2] = 0 THEN PathWBdrawn(pp, s)[1] ELSE r[1]
                      g == FeatDir(pd, s, <<4, -3>>)
                  IN <<r[1], r[2], x, f, wd, g>>
        fw == FillW(pp)
        others(j) == SelectSeq([i \in 1..Len(pp) |-> IF i = j THEN Ctr(Z2, <<>>, FALSE) ELSE pp[i]], LAMBDA c : Len(c.segs) > 0)
        sf == [j \in 1..Len(pp) |-> IF Len(pp) = 1 THEN 0 ELSE LET o == others(j) IN
                                       (IF PathWB(o, pp[j].s)[2] = 1 THEN 512 ELSE 0) + FeatD(o, PData(o), pp[j].s)]
        \* per contour: 1 = open (not closed and not ending at its start), 2 = its start is the bottom-right-most vertex
        cf == [j \in 1..Len(pp) |-> LET c == pp[j] vs == CtrVerts(c) IN
                 (IF ~c.cl /\ EndPt(c) # c.s THEN 1 ELSE 0)
                 + (IF \A v \in vs : v[1] < c.s[1] \/ (v[1] = c.s[1] /\ v[2] >= c.s[2]) THEN 2 ELSE 0)
                 + (IF \A v \in vs : v[1] < c.s[1] \/ (v[1] = c.s[1] /\ v[2] <= c.s[2]) THEN 4 ELSE 0)]
    IN [path |-> path, rows |-> [i \in 1..NQ |-> row(QPt(i))], ccw |-> Orient(pp[1]), fill |-> FillOf(fw), fw |-> fw, open |-> open, sf |-> sf, cf |-> cf]

Init == path \in PathChoice /\ done = FALSE
Emit == ~done /\ done' = TRUE /\ UNCHANGED path /\ PathOK(path) /\ PrintT("@@" \o ToJson(Scenario))
Spec == Init /\ [][Emit]_vars

Header == [hdr |-> TRUE, SC |-> SC, N |-> N, q |-> [i \in 1..NQ |-> QPt(i)]]
ASSUME PrintT("@@" \o ToJson(Header))

\* ---- model-level properties (MC config) ---------------------------------------------------------------------------
\* (1) two independent exact computations of the winding number agree wherever both are defined: the chord polygon
\*     with region corrections (PathWB) and the signed count of ray crossings in general position
RECURSIVE SumXS(_, _, _)
SumXS(d, s, i) == IF i = 0 THEN 0 ELSE LET a == d[i][1] g == d[i][2] IN
                  (IF g.k = "L" THEN LineXS(a, g.p, s) ELSE ArcXS(a, g, s)) + SumXS(d, s, i - 1)
CtrXS(c, s) == LET dr == Drawn(c) d == IF c.cl \/ EndPt(c) = c.s THEN dr ELSE Append(dr, <<EndPt(c), Ln(c.s)>>) IN SumXS(d, s, Len(d))
RECURSIVE PathXS(_, _, _)
PathXS(p, s, j) == IF j = 0 THEN 0 ELSE CtrXS(p[j], s) + PathXS(p, s, j - 1)
OnlyLA(p) == \A j \in 1..Len(p) : \A i \in 1..Len(p[j].segs) : p[j].segs[i].k = "L" \/ (p[j].segs[i].k = "A" /\ p[j].segs[i].rot = 0)
WindingTwoWays == (done /\ OnlyLA(P)) => \A i \in 1..NQ : LET s == QPt(i) r == PathWB(P, s) IN
                     (r[2] = 0 /\ (Feat(P, s) % 16) = 0) => r[1] = PathXS(P, s, Len(P))
\* (2) crossings and winding have the same parity and x >= |w| in general position
ParityOK == done => LET sc == Scenario IN \A i \in 1..NQ : LET r == sc.rows[i] IN r[3] >= 0 => (r[3] - r[1]) % 2 = 0 /\ r[3] >= Abs(r[1])
\* (3) far away the winding number is zero, and simple contours have winding in {0, orientation}
FarZero == done => \A i \in 1..NQ : LET s == QPt(i) IN (s[1] = QLo \/ s[2] = QLo \/ s[1] = QHi \/ s[2] = QHi) => PathWB(P, s) = <<0, 0>>
SimpleWinding == (done /\ Len(P) = 1 /\ Orient(P[1]) # 0) => \A i \in 1..NQ : LET r == PathWB(P, QPt(i)) IN r[2] = 0 => r[1] \in {0, Orient(P[1])}
=============================================================================
