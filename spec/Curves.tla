------------------------------- MODULE Curves -------------------------------
(* C03: Flatten / ReplaceArcs / XMonotone approximate every curve within the stated tolerance.        *)
(*                                                                                                     *)
(* Curves are exact: quadratic and cubic Beziers with lattice control points (all degenerate control    *)
(* polygons included) and circle / ellipse arcs between integer points of the circle of radius 65       *)
(* (36 points: the Pythagorean families 16-63-65, 25-60-65, 33-56-65, 39-52-65 and the axes), the       *)
(* ellipse being the circle stretched by 2 (rotation 0 or 90 degrees).  The specification computes      *)
(*  - WAY-POINTS: exact points of the curve in curve order (Bernstein form at t = j/2^k, rounded to      *)
(*    the quantisation grid Q; all integer circle points between the arc's ends),                       *)
(*  - GAP: an exact upper bound of the distance between the curve and the polygon through its           *)
(*    way-points,                                                                                       *)
(*  - the radii of the property for tolerance t = tn/td: RW = 4 t (every point of the curve is within    *)
(*    "a small constant multiple" c = 4 of t of the polyline), RV = 1.5 t + gap (every vertex lies on    *)
(*    the curve within t; 1.5 calibrated), both with the quantisation slack added,                      *)
(* and judges a logged output polyline (module Trace_Curves):                                          *)
(*  (S) structure, (W) way-points near the polyline in order, (V) vertices near the curve in order.     *)
(* This module also enumerates the scenarios (Init / Emit) with their feature predicates.               *)
EXTENDS Lattice, TLC, Json, Randomization

CONSTANTS Fam,     \* "quad" | "cubic" | "arc" | "chain" | "cubic1i"
          N,       \* lattice 0..N for control points
          Num      \* random subset size (0 = all)

VARIABLES cv, done
vars == <<cv, done>>

\* ---- Beziers ---------------------------------------------------------------------------------------------
QB == 1024              \* quantisation: units per lattice unit (Beziers)
KQ == 5                 \* quads:  way-points at j/32, exact on the grid (32^2 = 1024)
KC == 4                 \* cubics: way-points at j/16, rounded to the grid
RoundDiv(a, b) == (2 * a + b) \div (2 * b)          \* nearest integer to a/b (b > 0)
QuadAt(p, j, c) == LET n == 32 IN (n - j) * (n - j) * p[1][c] + 2 * j * (n - j) * p[2][c] + j * j * p[3][c]      \* B(j/32) * 1024
QuadWP(p) == [j \in 1..33 |-> <<QuadAt(p, j - 1, 1), QuadAt(p, j - 1, 2)>>]
CubeAt(p, j, c) == LET n == 16 m == n - j IN m * m * m * p[1][c] + 3 * j * m * m * p[2][c] + 3 * j * j * m * p[3][c] + j * j * j * p[4][c]   \* B(j/16) * 4096
CubeWP(p) == [j \in 1..17 |-> <<RoundDiv(CubeAt(p, j - 1, 1), 4), RoundDiv(CubeAt(p, j - 1, 2), 4)>>]
\* distance between a sub-curve over a parameter interval h and its chord: quad |D| h^2 / 4, cubic <= 3/4 h^2 max|D1|,|D2|
VLen(v) == ISqrtHi(v[1] * v[1] + v[2] * v[2])
D2(a, b, c) == <<a[1] - 2 * b[1] + c[1], a[2] - 2 * b[2] + c[2]>>
QuadGap(p) == (VLen(D2(p[1], p[2], p[3])) * QB) \div 4096 + 1                                  \* |D| / (4 * 32^2) lattice units
CubeGap(p) == (3 * MaxI(VLen(D2(p[1], p[2], p[3])), VLen(D2(p[2], p[3], p[4]))) * QB) \div 1024 + 1   \* 3/4 |D| / 16^2

\* ---- arcs --------------------------------------------------------------------------------------------------
R == 65
Quadrant == << <<65,0>>, <<63,16>>, <<60,25>>, <<56,33>>, <<52,39>>, <<39,52>>, <<33,56>>, <<25,60>>, <<16,63>> >>
\* the 36 integer points of the circle, counter-clockwise from (65,0)
CirclePt(i) == LET q == (i \div 9) % 4 p == Quadrant[(i % 9) + 1] IN
               CASE q = 0 -> p [] q = 1 -> <<0 - p[2], p[1]>> [] q = 2 -> <<0 - p[1], 0 - p[2]>> [] q = 3 -> <<p[2], 0 - p[1]>>
\* arc scenario: [a (start index 0..35), n (steps 1..35), ccw, shape ("circle" | "ellipse" | "ellipse90" | "chordrx")]
\* points in lattice units (centre at the origin; the harness translates)
ShapePt(shape, p) == CASE shape = "circle" -> p [] shape = "ellipse" -> <<2 * p[1], p[2]>> [] shape = "ellipse90" -> <<0 - p[2], 2 * p[1]>>
ArcQ(shape) == IF shape = "circle" THEN 32 ELSE 16
ArcIdx(a, j, ccw) == IF ccw THEN (a + j) % 36 ELSE (a + 36 - (j % 36)) % 36
ArcWPu(c) == [j \in 1..(c.n + 1) |-> ShapePt(c.shape, CirclePt(ArcIdx(c.a, j - 1, c.ccw)))]          \* lattice units
ArcLarge(c) == LET s == CirclePt(c.a) e == CirclePt(ArcIdx(c.a, c.n, c.ccw)) x == s[1] * e[2] - s[2] * e[1] IN
               IF c.ccw THEN x < 0 ELSE x > 0
\* largest step between neighbouring integer points is 36.87 degrees (chord 41.1, sagitta 3.35 on R = 65): gap = sagitta,
\* stretched by at most 2 on the ellipse
ArcGap(shape) == IF shape = "circle" THEN 4 * ArcQ(shape) ELSE 7 * ArcQ(shape)

\* ---- chains: one sub-path [curve A][straight line][curve B] ----------------------------------------------------------
\* Path.replace rebuilds the path segment by segment through the builder; a replaced curve whose last piece is collinear
\* with the following LineTo is merged with it, and the next curve must still start where the line ends. A is a
\* near-straight quad / cubic on the chord (0,0)-(50,0) (control points 1 or 2 units off the chord, so that Flatten at
\* t0 = 5/2 returns the chord), the line is collinear with that chord (or not, or shorter), B is a smooth quad / cubic.
\* Lattice 0..150, Q = 16 per unit. Way-points: those of A followed by those of B (the line joins A's last to B's first).
QCH == 16
BezWP(p, q) == IF Len(p) = 3 THEN [j \in 1..33 |-> <<RoundDiv(QuadAt(p, j - 1, 1) * q, 1024), RoundDiv(QuadAt(p, j - 1, 2) * q, 1024)>>]
               ELSE [j \in 1..17 |-> <<RoundDiv(CubeAt(p, j - 1, 1) * q, 4096), RoundDiv(CubeAt(p, j - 1, 2) * q, 4096)>>]
BezGap(p, q) == IF Len(p) = 3 THEN (VLen(D2(p[1], p[2], p[3])) * q) \div 4096 + 1
                ELSE (3 * MaxI(VLen(D2(p[1], p[2], p[3])), VLen(D2(p[2], p[3], p[4]))) * q) \div 1024 + 1
ChainWP(c) == BezWP(c.ca, QCH) \o BezWP(c.cb, QCH)
ChainGap(c) == MaxI(BezGap(c.ca, QCH), BezGap(c.cb, QCH))
ChainAs == {<< <<0,0>>, <<15,e>>, <<35,e>>, <<50,0>> >> : e \in {1, 2, -1}} \cup {<< <<0,0>>, <<25,e>>, <<50,0>> >> : e \in {1, -2}}
ChainLs == {<<100, 0>>, <<75, 0>>, <<100, 10>>}
ChainBs(l) == { << l, <<l[1] + 25, l[2] + 25>>, <<l[1] + 50, l[2]>> >>,
                << l, <<l[1] + 10, l[2] + 20>>, <<l[1] + 30, l[2] + 30>>, <<l[1] + 50, l[2] + 30>> >> }
Chains == {[type |-> "chain", ca |-> a, cb |-> b] : a \in ChainAs, b \in UNION {ChainBs(l) : l \in ChainLs}}

\* ---- cubics with one inflection point close to the start (p0, p1, p2 almost collinear, p3 off the line), lattice 0..100, Q = 16;
\* flattened at t = 1/2, 1/5, 1/10: the flat range around the inflection reaches back to t = 0 but not to t = 1
OneInfl == {<< <<0,0>>, <<30,0>>, <<60,e>>, p3 >> : e \in {-1, -2, 1}, p3 \in {<<100,50>>, <<100,-50>>, <<90,60>>}}
           \cup {<< <<10,10>>, <<10,40>>, <<x,70>>, <<60,100>> >> : x \in {9, 8, 11}}

\* ---- scenario features ----------------------------------------------------------------------------------------
\* control point collinear with, and outside, the end points (the curve runs past an end and comes back)
QuadCollinearOvershoot(p) == /\ Cross(p[1], p[3], p[2]) = 0 /\ p[1] # p[2] /\ p[3] # p[2]
                             /\ (p[1] = p[3] \/ DotP(p[1], p[3], p[2]) < 0 \/ DotP(p[1], p[3], p[2]) > Len2(p[1], p[3]))
\* the control polygon turns by more than 90 degrees between two of its (non-zero) legs, or a leg has length zero: the
\* curve runs back along its own tangent direction, which the step-size formulas of the flattener do not account for
Leg(p, i) == <<p[i + 1][1] - p[i][1], p[i + 1][2] - p[i][2]>>
VDot(u, v) == u[1] * v[1] + u[2] * v[2]
Fold(p) == \/ \E i \in 1..(Len(p) - 1) : Leg(p, i) = <<0, 0>>
           \/ \E i, j \in 1..(Len(p) - 1) : i < j /\ VDot(Leg(p, i), Leg(p, j)) < 0
CubeCollinear(p) == Cross(p[1], p[4], p[2]) = 0 /\ Cross(p[1], p[4], p[3]) = 0 /\ (p[1] = p[4] => Cross(p[1], p[2], p[3]) = 0)
Features == CASE cv.type = "quad"  -> [overshoot |-> QuadCollinearOvershoot(cv.pts), startend |-> cv.pts[1] = cv.pts[3], collinear |-> Cross(cv.pts[1], cv.pts[3], cv.pts[2]) = 0, chordrx |-> FALSE, fold |-> Fold(cv.pts)]
              [] cv.type = "cubic" -> [overshoot |-> FALSE, startend |-> cv.pts[1] = cv.pts[4], collinear |-> CubeCollinear(cv.pts), chordrx |-> FALSE, fold |-> Fold(cv.pts)]
              [] cv.type = "arc"   -> [overshoot |-> FALSE, startend |-> FALSE, collinear |-> FALSE, chordrx |-> cv.shape = "chordrx", fold |-> FALSE]
              [] cv.type = "bigcubic" -> [overshoot |-> FALSE, startend |-> FALSE, collinear |-> FALSE, chordrx |-> FALSE, fold |-> Fold(cv.pts)]
              [] cv.type = "chain" -> [overshoot |-> FALSE, startend |-> FALSE, collinear |-> FALSE, chordrx |-> FALSE, fold |-> Fold(cv.ca) \/ Fold(cv.cb)]

\* ---- enumeration ----------------------------------------------------------------------------------------------------
Pt == (0..N) \X (0..N)
Ctl(n) == IF Num = 0 THEN [1..n -> Pt] ELSE RandomSubset(Num, [1..n -> Pt])
Arcs == {[type |-> "arc", shape |-> s, a |-> a, n |-> n, ccw |-> w] : s \in {"circle", "ellipse", "ellipse90"}, a \in 0..35, n \in 1..35, w \in BOOLEAN}
\* chord = rx, horizontal, rotation 0 (60 degree arcs): end points are not integer circle points; both directions
ChordRx == {[type |-> "arc", shape |-> "chordrx", a |-> 0, n |-> 1, ccw |-> w] : w \in BOOLEAN}
           \* the other side of ellipseToCenter's half-turn shortcut (|x2-x1| = 2 rx, y1 = y2, phi = 0): a horizontal chord of
           \* length 2 ry on the unrotated ellipse rx = 195, ry = 65 (a flat arc of 38.9 degrees, not a half turn)
           \cup {[type |-> "arc", shape |-> "chord2ry", a |-> 0, n |-> 1, ccw |-> w] : w \in BOOLEAN}
NotAPoint(p) == \E i \in 2..Len(p) : p[i] # p[1]            \* a curve whose control points all coincide is dropped by the builder
Choice == CASE Fam = "quad"  -> {[type |-> "quad", pts |-> p] : p \in {x \in Ctl(3) : NotAPoint(x)}}
            [] Fam = "cubic" -> {[type |-> "cubic", pts |-> p] : p \in {x \in Ctl(4) : NotAPoint(x)}}
            [] Fam = "arc"   -> (IF Num = 0 THEN Arcs ELSE RandomSubset(Num, Arcs)) \cup ChordRx
            [] Fam = "chain" -> Chains
            [] Fam = "cubic1i" -> {[type |-> "bigcubic", pts |-> p] : p \in OneInfl}
Init == cv \in Choice /\ done = FALSE
\* geometry of an arc for the harness (lattice units, centre at the origin; chordrx: a horizontal chord of length rx)
ArcGeom(c) == IF c.shape = "chord2ry"
              THEN [s |-> IF c.ccw THEN <<0, 0>> ELSE <<2 * R, 0>>, e |-> IF c.ccw THEN <<2 * R, 0>> ELSE <<0, 0>>, rx |-> 3 * R, ry |-> R, rot |-> 0, large |-> FALSE, sweep |-> c.ccw]
              ELSE IF c.shape = "chordrx"
              THEN [s |-> IF c.ccw THEN <<0, 0>> ELSE <<R, 0>>, e |-> IF c.ccw THEN <<R, 0>> ELSE <<0, 0>>, rx |-> R, ry |-> R, rot |-> 0, large |-> FALSE, sweep |-> c.ccw]
              ELSE LET w == ArcWPu(c) IN
                   [s |-> w[1], e |-> w[Len(w)], rx |-> IF c.shape = "circle" THEN R ELSE 2 * R, ry |-> R,
                    rot |-> IF c.shape = "ellipse90" THEN 90 ELSE 0, large |-> ArcLarge(c), sweep |-> c.ccw]
\* ---- scale dimension (round 5) --------------------------------------------------------------------------------------
\* The property is homogeneous of degree 1: for k > 0, way-points, gap and the radii RadW, RadV of (k * curve, k * t) are k
\* times those of (curve, t), so Flatten(k * P, k * t) has to satisfy (S), (W), (V) after division by k -- "for all
\* tolerances t > 0" includes tolerances and curves far below the library's absolute Epsilon = 1e-10 in AREA terms
\* (cross products of a curve of size 1e-5 are 1e-10).  Every Bezier scenario therefore carries the decimal exponents e
\* of the small-scale embeddings x 10^-e under which clause (T) (t0, t0/4, t0/16) and XMonotone are executed as well:
\* 4 (cross products ~1e-8: only the tail of a subdivision gets below Epsilon), 5, 6 (lattice unit^2 = 1e-12 < Epsilon
\* < unit), 7 (tolerances down to 6e-10, still above Epsilon as a LENGTH, so the builder's point-equality does not merge).
ScaleExps == <<4, 5, 6, 7>>
ScaleLaw == \A i \in 1..Len(ScaleExps) : ScaleExps[i] > 3 /\ ScaleExps[i] < 8      \* beyond scale1e-3, lengths above 1e-10
Scenario == IF cv.type = "arc" THEN [cv |-> cv, f |-> Features, g |-> ArcGeom(cv)] ELSE [cv |-> cv, f |-> Features, sc |-> ScaleExps]
Emit == ~done /\ done' = TRUE /\ UNCHANGED cv /\ PrintT("@@" \o ToJson(Scenario))
Spec == Init /\ [][Emit]_vars

\* ---- model-level laws of the exact data (invariant of every generation run) -------------------------------------
\* a parabola has constant second differences, a cubic constant third differences; way-points start and end on the end
\* points; the 36 circle points lie on the circle in counter-clockwise order; the large flag is the one of the SVG rules
CurveLaws ==
    ScaleLaw /\
    CASE cv.type = "quad" -> LET p == cv.pts w == QuadWP(p) d == D2(p[1], p[2], p[3]) IN
            /\ w[1] = <<QB * p[1][1], QB * p[1][2]>> /\ w[33] = <<QB * p[3][1], QB * p[3][2]>>
            /\ \A j \in 1..31 : \A c \in 1..2 : w[j][c] - 2 * w[j + 1][c] + w[j + 2][c] = 2 * d[c]
      [] cv.type = "cubic" -> LET p == cv.pts IN
            /\ CubeWP(p)[1] = <<QB * p[1][1], QB * p[1][2]>> /\ CubeWP(p)[17] = <<QB * p[4][1], QB * p[4][2]>>
            /\ \A j \in 0..13 : \A c \in 1..2 :
                  CubeAt(p, j + 3, c) - 3 * CubeAt(p, j + 2, c) + 3 * CubeAt(p, j + 1, c) - CubeAt(p, j, c) = 6 * (p[4][c] - 3 * p[3][c] + 3 * p[2][c] - p[1][c])
      [] cv.type = "arc" ->
            /\ \A i \in 0..35 : LET a == CirclePt(i) b == CirclePt((i + 1) % 36) IN
                  a[1] * a[1] + a[2] * a[2] = R * R /\ a[1] * b[2] - a[2] * b[1] > 0
            /\ cv.shape \notin {"chordrx", "chord2ry"} => LET w == ArcWPu(cv) IN Len(w) = cv.n + 1 /\ (ArcLarge(cv) <=> cv.n > 18)
      [] cv.type = "bigcubic" -> LET p == cv.pts w == BezWP(p, QCH) IN
            w[1] = <<QCH * p[1][1], QCH * p[1][2]>> /\ w[17] = <<QCH * p[4][1], QCH * p[4][2]>> /\ ~Fold(p)
      [] cv.type = "chain" -> LET w == ChainWP(cv) a == cv.ca b == cv.cb IN
            /\ w[1] = <<QCH * a[1][1], QCH * a[1][2]>> /\ w[Len(w)] = <<QCH * b[Len(b)][1], QCH * b[Len(b)][2]>>
            /\ \E j \in 1..(Len(w) - 1) : w[j] = <<QCH * a[Len(a)][1], QCH * a[Len(a)][2]>> /\ w[j + 1] = <<QCH * b[1][1], QCH * b[1][2]>>
            /\ ~Fold(a) /\ ~Fold(b)

\* ---- judging an output polyline (all coordinates in Q units) ----------------------------------------------------
\* distance from s to the segment ab is at most r ; sq = ceiling of the length of ab (the accepting side is widened)
WithinSegS(a, b, s, r, sq) ==
    IF a = b THEN Len2(a, s) <= r * r
    ELSE LET t == DotP(a, b, s) l == Len2(a, b) IN
         IF t <= 0 THEN Len2(a, s) <= r * r
         ELSE IF t >= l THEN Len2(b, s) <= r * r
         ELSE Abs(Cross(a, b, s)) <= r * sq
WithinSeg(a, b, s, r) == WithinSegS(a, b, s, r, ISqrtHi(Len2(a, b)))
\* sq is the sequence of the ceilings of the segment lengths of poly (a certificate that is checked, not trusted)
SqrtsOK(poly, sq) == /\ Len(sq) = Len(poly) - 1
                     /\ \A i \in 1..Len(sq) : LET l == Len2(poly[i], poly[i + 1]) IN sq[i] * sq[i] >= l /\ (sq[i] = 0 \/ (sq[i] - 1) * (sq[i] - 1) < l)
Sqrts(poly) == [i \in 1..(Len(poly) - 1) |-> ISqrtHi(Len2(poly[i], poly[i + 1]))]
\* pts[j] (j from jj) are, in order, within r of the polyline poly, walking its segments from index i on (monotone cover)
RECURSIVE Cover(_, _, _, _, _, _)
Cover(pts, jj, poly, i, r, sq) ==
    IF jj > Len(pts) THEN 0                                              \* 0 = all covered
    ELSE IF Len(poly) = 1 THEN (IF Len2(poly[1], pts[jj]) <= r * r THEN Cover(pts, jj + 1, poly, i, r, sq) ELSE jj)
    ELSE IF i >= Len(poly) THEN jj                                        \* index of the first point that cannot be placed
    ELSE IF WithinSegS(poly[i], poly[i + 1], pts[jj], r, sq[i]) THEN Cover(pts, jj + 1, poly, i, r, sq)
    ELSE Cover(pts, jj, poly, i + 1, r, sq)
CeilDiv(a, b) == (a + b - 1) \div b
RadW(q, tn, td) == CeilDiv(4 * q * tn, td) + 2
RadV(q, tn, td, gap) == CeilDiv(3 * q * tn, 2 * td) + gap + 2
=============================================================================
