----------------------------- MODULE LatCurves -----------------------------
(* Exact integer geometry of lattice *curve* paths, shared by Query (C06), Transform (C07),         *)
(* Bounds (C08) and Measure (C09).                                                                    *)
(*                                                                                                    *)
(* A path is a sequence of contours; a contour is [s |-> start point, segs |-> sequence of segments,  *)
(* cl |-> closed by Close].  A segment is a record with the uniform fields                            *)
(*     k   "L" | "Q" | "C" | "A"                                                                      *)
(*     p   end point                                                                                  *)
(*     c1  Q: control point; C: first control point; A: CENTRE of the ellipse                         *)
(*     c2  C: second control point; A: <<rx, ry>> radii along the ellipse's own u / v axes            *)
(*     rot A: 0 = u axis along +x; 1 = u axis along (4/5, 3/5)  (the Pythagorean rotation)            *)
(*     lg, sw  A: SVG large-arc and sweep flags (y-up: sw = 1 is counter-clockwise)                   *)
(* All coordinates are integers.  An arc's end points lie exactly on its ellipse (checked by ArcOK),  *)
(* so that "inside the ellipse", "on the arc", "left of the chord" are signs of integer polynomials.  *)
(* Nothing here is a float and nothing is a tolerance.                                                *)
EXTENDS Lattice, TLC

Z2 == <<0, 0>>
Ln(p)          == [k |-> "L", p |-> p, c1 |-> Z2, c2 |-> Z2, rot |-> 0, lg |-> 0, sw |-> 0]
Qd(c, p)       == [k |-> "Q", p |-> p, c1 |-> c,  c2 |-> Z2, rot |-> 0, lg |-> 0, sw |-> 0]
Cb(c, d, p)    == [k |-> "C", p |-> p, c1 |-> c,  c2 |-> d,  rot |-> 0, lg |-> 0, sw |-> 0]
Ar(ctr, rad, rot, lg, sw, p) == [k |-> "A", p |-> p, c1 |-> ctr, c2 |-> rad, rot |-> rot, lg |-> lg, sw |-> sw]
Ctr(s, segs, cl) == [s |-> s, segs |-> segs, cl |-> cl]

PAdd(a, b) == <<a[1] + b[1], a[2] + b[2]>>
PSub(a, b) == <<a[1] - b[1], a[2] - b[2]>>
PMul(k, a) == <<k * a[1], k * a[2]>>

\* ---- scaling (the query lattice is finer than the control lattice) -----------------------------------
ScaleSeg(m, g) == [g EXCEPT !.p = PMul(m, g.p), !.c1 = PMul(m, g.c1), !.c2 = PMul(m, g.c2)]
ScaleCtr(m, c) == [c EXCEPT !.s = PMul(m, c.s), !.segs = [i \in 1..Len(c.segs) |-> ScaleSeg(m, c.segs[i])]]
ScalePath(m, p) == [j \in 1..Len(p) |-> ScaleCtr(m, p[j])]

\* start point of segment i of contour c
SegStart(c, i) == IF i = 1 THEN c.s ELSE c.segs[i - 1].p
EndPt(c) == IF Len(c.segs) = 0 THEN c.s ELSE c.segs[Len(c.segs)].p

\* ---- ellipse ------------------------------------------------------------------------------------------
\* local (u,v) coordinates of s relative to the centre, times EDen(rot)
EU(g, s) == IF g.rot = 0 THEN s[1] - g.c1[1] ELSE 4 * (s[1] - g.c1[1]) + 3 * (s[2] - g.c1[2])
EV(g, s) == IF g.rot = 0 THEN s[2] - g.c1[2] ELSE 4 * (s[2] - g.c1[2]) - 3 * (s[1] - g.c1[1])
EDen2(g) == IF g.rot = 0 THEN 1 ELSE 25
\* sign of  u^2/rx^2 + v^2/ry^2 - 1 :  < 0 inside, 0 on the ellipse, > 0 outside
EllF(g, s) == LET u == EU(g, s) v == EV(g, s) a == g.c2[1] b == g.c2[2]
              IN Sgn(b * b * u * u + a * a * v * v - a * a * b * b * EDen2(g))
\* the SVG large flag that is consistent with centre, end points and sweep (orientation of centre->a->p in the
\* ellipse's own frame; the frame map has positive determinant so the sign can be taken in the plane after
\* undoing the anisotropy: cross of (u/rx, v/ry) vectors, scaled by rx*ry)
ArcTurn(a, g) == LET ua == EU(g, a) va == EV(g, a) up == EU(g, g.p) vp == EV(g, g.p) IN Sgn(ua * vp - va * up)
ArcOK(a, g) == /\ g.c2[1] > 0 /\ g.c2[2] > 0 /\ a # g.p
               /\ EllF(g, a) = 0 /\ EllF(g, g.p) = 0
               /\ LET t == ArcTurn(a, g) IN       \* t > 0: p is counter-clockwise (< 180 deg) from a
                  IF t = 0 THEN TRUE               \* half ellipse: both flag values describe the same arc
                  ELSE g.lg = (IF (g.sw = 1) = (t > 0) THEN 0 ELSE 1)

\* ---- signs under the symbolic perturbation s + (eps, eps^2) -------------------------------------------
\* Lattice!EdgeW evaluated at a point s ON a (non-boundary) chord equals the true winding of the chord polygon
\* around s + (eps, eps^2).  Regions bounded by a chord are therefore classified at the same perturbed point.
SideP(a, b, s) == LET c == Cross(a, b, s) IN
                  IF c # 0 THEN Sgn(c) ELSE IF b[2] # a[2] THEN -Sgn(b[2] - a[2]) ELSE Sgn(b[1] - a[1])

\* ---- contribution of one segment (start a) to the winding number around s ---------------------------
\* result <<w, flag>>: flag 0 = decided, s off the segment; 1 = s lies ON the segment; 2 = undecided (cubic hulls)
ArcWB(a, g, s) ==
    LET f == EllF(g, s) dir == IF g.sw = 1 THEN 1 ELSE -1
        onarc == f = 0 /\ (s = a \/ s = g.p \/ Sgn(Cross(a, g.p, s)) = -dir)
        inreg == f < 0 /\ SideP(a, g.p, s) = -dir
    IN IF onarc THEN <<0, 1>> ELSE <<EdgeW(a, g.p, s) + (IF inreg THEN dir ELSE 0), 0>>

QuadWB(a, g, s) ==
    LET d == Cross(a, g.c1, g.p) sd == Sgn(d)
        u == sd * Cross(s, g.c1, g.p) v == sd * Cross(a, s, g.p) w == sd * Cross(a, g.c1, s)
        vp == -sd * SideP(a, g.p, s)
    IN IF d = 0 THEN (IF OnSeg(a, g.p, s) THEN <<0, 1>> ELSE <<EdgeW(a, g.p, s), 0>>)   \* only used for cp on the chord
       ELSE IF u >= 0 /\ w >= 0 /\ v >= 0 /\ v * v = 4 * u * w THEN <<0, 1>>
       ELSE <<EdgeW(a, g.p, s) + (IF u > 0 /\ w > 0 /\ vp > 0 /\ v * v < 4 * u * w THEN sd ELSE 0), 0>>

\* cubic: exact de Casteljau split at t = 1/2 (inputs scaled by 8 per level)
Mid(a, b) == <<(a[1] + b[1]) \div 2, (a[2] + b[2]) \div 2>>
CubL(q) == LET ab == Mid(q[1], q[2]) bc == Mid(q[2], q[3]) cd == Mid(q[3], q[4]) abc == Mid(ab, bc) bcd == Mid(bc, cd)
           IN <<q[1], ab, abc, Mid(abc, bcd)>>
CubR(q) == LET ab == Mid(q[1], q[2]) bc == Mid(q[2], q[3]) cd == Mid(q[3], q[4]) abc == Mid(ab, bc) bcd == Mid(bc, cd)
           IN <<Mid(abc, bcd), bcd, cd, q[4]>>
\* the 2^k sub-cubics of q (control points scaled by 8^k beforehand)
RECURSIVE CubPieces(_, _)
CubPieces(q, k) == IF k = 0 THEN <<q>> ELSE CubPieces(CubL(q), k - 1) \o CubPieces(CubR(q), k - 1)
InTriC(a, b, c, s) == IF Cross(a, b, c) = 0
                      THEN \* degenerate triangle = the segment spanned by the three collinear points
                           /\ Cross(a, b, s) = 0 /\ Cross(a, c, s) = 0 /\ Cross(b, c, s) = 0
                           /\ MinI(a[1], MinI(b[1], c[1])) <= s[1] /\ s[1] <= MaxI(a[1], MaxI(b[1], c[1]))
                           /\ MinI(a[2], MinI(b[2], c[2])) <= s[2] /\ s[2] <= MaxI(a[2], MaxI(b[2], c[2]))
                      ELSE LET x == Sgn(Cross(a, b, s)) y == Sgn(Cross(b, c, s)) z == Sgn(Cross(c, a, s))
                           IN (x >= 0 /\ y >= 0 /\ z >= 0) \/ (x <= 0 /\ y <= 0 /\ z <= 0)
\* closed convex hull of four points (Caratheodory: union of the four triangles, degenerate ones included exactly)
InHull4(q, s) == InTriC(q[1], q[2], q[3], s) \/ InTriC(q[1], q[2], q[4], s) \/ InTriC(q[1], q[3], q[4], s) \/ InTriC(q[2], q[3], q[4], s)
CubDepth == 2
CubScale == 64
CubWB(a, g, s) ==
    LET q == <<PMul(CubScale, a), PMul(CubScale, g.c1), PMul(CubScale, g.c2), PMul(CubScale, g.p)>>
        t == PMul(CubScale, s)
        ps == CubPieces(q, CubDepth)
        RECURSIVE sum(_)
        sum(i) == IF i = 0 THEN 0 ELSE EdgeW(ps[i][1], ps[i][4], t) + sum(i - 1)
    IN IF \E i \in 1..Len(ps) : t = ps[i][1] \/ t = ps[i][4] THEN <<0, 1>>
       ELSE IF \E i \in 1..Len(ps) : InHull4(ps[i], t) THEN <<0, 2>>
       ELSE <<sum(Len(ps)), 0>>

SegWB(a, g, s) == CASE g.k = "L" -> IF OnSeg(a, g.p, s) THEN <<0, 1>> ELSE <<EdgeW(a, g.p, s), 0>>
                    [] g.k = "A" -> ArcWB(a, g, s)
                    [] g.k = "Q" -> QuadWB(a, g, s)
                    [] g.k = "C" -> CubWB(a, g, s)

\* winding of one contour around s:  <<w, flag>>, flag as above (1 wins over 2).  With implicit = TRUE an open contour
\* is closed by the straight edge back to its start (the winding number of the statement); that edge is not part
\* of the boundary: a point on it is undecided.  With implicit = FALSE only the drawn segments are counted (the
\* "as if not closed" value used to recognise a library that does not close open contours).
RECURSIVE CtrWB_(_, _, _)
CtrWB_(c, s, i) == IF i = 0 THEN <<0, 0>>
                   ELSE LET r == SegWB(SegStart(c, i), c.segs[i], s) t == CtrWB_(c, s, i - 1)
                        IN <<r[1] + t[1], IF r[2] = 1 \/ t[2] = 1 THEN 1 ELSE MaxI(r[2], t[2])>>
CtrWBi(c, s, implicit) ==
               LET r == CtrWB_(c, s, Len(c.segs)) e == EndPt(c) IN
               IF e = c.s \/ (~c.cl /\ ~implicit) THEN r
               ELSE IF r[2] # 1 /\ OnSeg(e, c.s, s) THEN <<0, IF c.cl THEN 1 ELSE 2>>
               ELSE <<r[1] + EdgeW(e, c.s, s), r[2]>>
CtrWB(c, s) == CtrWBi(c, s, TRUE)
RECURSIVE PathWB_(_, _, _, _)
PathWB_(p, s, j, implicit) == IF j = 0 THEN <<0, 0>>
                    ELSE LET r == CtrWBi(p[j], s, implicit) t == PathWB_(p, s, j - 1, implicit)
                         IN <<r[1] + t[1], IF r[2] = 1 \/ t[2] = 1 THEN 1 ELSE MaxI(r[2], t[2])>>
PathWB(p, s) == PathWB_(p, s, Len(p), TRUE)
PathWBdrawn(p, s) == PathWB_(p, s, Len(p), FALSE)

\* ---- vertices and edges of a contour ------------------------------------------------------------------
CtrVerts(c) == {c.s} \cup {c.segs[i].p : i \in 1..Len(c.segs)}
PathVerts(p) == UNION {CtrVerts(p[j]) : j \in 1..Len(p)}
\* straight edges <<a, b>> that are drawn (Close included), zero-length dropped
CtrLines(c) == {<<SegStart(c, i), c.segs[i].p>> : i \in {j \in 1..Len(c.segs) : c.segs[j].k = "L" /\ SegStart(c, j) # c.segs[j].p}}
               \cup (IF c.cl /\ EndPt(c) # c.s THEN {<<EndPt(c), c.s>>} ELSE {})
PathLines(p) == UNION {CtrLines(p[j]) : j \in 1..Len(p)}

\* ---- well-formedness of a generated scenario ----------------------------------------------------------
SegOK(a, g) == CASE g.k = "L" -> TRUE
                 [] g.k = "A" -> ArcOK(a, g)
                 [] g.k = "Q" -> Cross(a, g.c1, g.p) # 0
                 [] g.k = "C" -> ~(Cross(a, g.c1, g.p) = 0 /\ Cross(a, g.c2, g.p) = 0)
CtrOK(c) == /\ \A i \in 1..Len(c.segs) : SegOK(SegStart(c, i), c.segs[i])
            /\ \E i \in 1..Len(c.segs) : c.segs[i].p # c.s \/ c.segs[i].k # "L"       \* not a single point
PathOK(p) == \A j \in 1..Len(p) : CtrOK(p[j])
=============================================================================
