--------------------------- MODULE Trace_Context ---------------------------
(* Trace validation for the Context machine: the events recorded from the real canvas.Context /   *)
(* canvas.Canvas (harness/internal/props/c15) are consumed one by one by the actions of Context. *)
(* Every event binds the call and its arguments; the logged observations (canvas size, number of  *)
(* replayed layers, and at RenderTo events the full replay list) must equal the specification's.  *)
(* With CheckObs = FALSE the observations are ignored and the expected scenario is printed at     *)
(* every RenderTo event: used to turn a rejection into an API-level replay file.                  *)
EXTENDS Context
CONSTANT CheckObs
Trace == ndJsonDeserialize("trace_context.ndjson")
VARIABLE l
tvars == <<vars, l>>
Ev == Trace[l]
C == [op |-> Ev.op, a |-> Ev.a]
Is(ops) == l <= Len(Trace) /\ Ev.op \in ops /\ l' = l + 1

RenderOf(ls) == LET zs == {ls[i].z : i \in 1..Len(ls)}
                    RECURSIVE S(_)
                    S(q) == IF q = {} THEN <<>> ELSE LET k == Min(q) IN SelectSeq(ls, LAMBDA x : x.z = k) \o S(q \ {k})
                IN S(zs)
ObsOK == CheckObs => /\ W' = Ev.w /\ H' = Ev.h /\ Len(layers') = Ev.n

TView  == Is({"Translate","Rotate","Scale","Shear","ReflectX","ReflectY","ResetView","RotateAbout","ScaleAbout","ShearAbout",
              "ReflectXAbout","ReflectYAbout","SetView","ComposeView"}) /\ ViewC(C) /\ ObsOK
TStyle == Is({"SetFill","SetStroke","SetStrokeWidth","SetStrokeCapper","SetStrokeJoiner","SetDashes","SetFillRule","ResetStyle"}) /\ StyleC(C) /\ ObsOK
TCoord == Is({"SetCoordSystem","SetCoordView"}) /\ CoordC(C) /\ ObsOK
TPush  == Is({"Push"}) /\ DoPush /\ ObsOK
TPop   == Is({"Pop"}) /\ DoPop /\ ObsOK
TZ     == Is({"SetZIndex"}) /\ ZC(Ev.a[1]) /\ ObsOK
TDraw  == Is({"DrawPath","DrawLine","DrawText","DrawImage","DrawImageHalf","FitImageCover","FitImageFill","Fill","Stroke","FillStroke"}) /\ DrawC(C) /\ ObsOK
TCanvas == Is({"CanvasTransform","CanvasClip","CanvasFit"}) /\ CanvasC(C) /\ ObsOK
TRender == /\ Is({"RenderTo"}) /\ Log(C) /\ UNCHANGED <<st, view, cview, csys, stack, z, layers, W, H>>
           /\ CheckObs => LET r == RenderOrder IN
                 /\ Len(Ev.obs) = Len(r)
                 /\ \A i \in 1..Len(r) : /\ Ev.obs[i].kind = r[i].kind /\ Ev.obs[i].m = r[i].m
                                         /\ (r[i].kind \in {"path", "line"} => Ev.obs[i].st = r[i].st)
           /\ (~CheckObs) => PrintT("@@" \o ToJson(Scenario))
TReset == /\ Is({"RESET"})
          /\ st' = DefaultStyle /\ view' = MId /\ cview' = MId /\ csys' = 0 /\ stack' = <<>> /\ z' = 0
          /\ layers' = <<>> /\ W' = W0 /\ H' = H0 /\ hist' = <<>>

TInit == Init /\ l = 1
TNext == TView \/ TStyle \/ TCoord \/ TPush \/ TPop \/ TZ \/ TDraw \/ TCanvas \/ TRender \/ TReset
TSpec == TInit /\ [][TNext]_tvars
TraceAccepted == TLCGet("stats").diameter - 1 = Len(Trace)
=============================================================================
