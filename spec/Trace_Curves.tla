---------------------------- MODULE Trace_Curves ----------------------------
(* Judges the output the real library produced for the scenarios of Curves.tla.  One event per call:     *)
(*   op    "flatten" | "replacearcs" | "xmonotone"                                                       *)
(*   cv    the curve (as printed by Curves!Scenario), closed (sub-path closed by z), post (a closed triangle  *)
(*         sub-path follows the curve's sub-path), pre (a straight                                          *)
(*         sub-path M0 0 L3 2 precedes the curve)                                                        *)
(*   tn,td the tolerance tn/td lattice units (flatten) ; for the rewrites the fixed bound of the statement *)
(*   out   every sub-path of the result as a polyline in Q units (flatten: its vertices, exact for        *)
(*         lattice end points; rewrites: a fine flattening by the independent oracle); a closed           *)
(*         sub-path is logged with its start point appended                                               *)
(*   sq    ceilings of the lengths of the segments of the last output sub-path (checked by SqrtsOK)           *)
(*   cls   closed flag of every output sub-path ; ok: only the allowed commands occur (flatten: M L z ;    *)
(*         replacearcs: no arc) ; xs: (xmonotone) x coordinates sampled along every output segment         *)
(* The events are independent calls, so every event is an initial state and one Judge step (TLC's          *)
(* workers judge in parallel); the harness checks that all events were judged.  A wrong event prints a    *)
(* verdict with the violated clauses.                                                                      *)
EXTENDS Curves
Trace == ndJsonDeserialize("trace_curves.ndjson")
VARIABLES e, judged
tvars == <<e, judged, cv, done>>

Q(ev) == IF ev.cv.type \in {"chain", "bigcubic"} THEN QCH ELSE IF ev.cv.type = "arc" THEN (IF ev.cv.shape = "chordrx" THEN 32 ELSE ArcQ(ev.cv.shape)) ELSE QB
SclPt(p, q) == <<q * p[1], q * p[2]>>
\* way-points in Q units
WPof(ev) == CASE ev.cv.type = "quad"  -> QuadWP(ev.cv.pts)
              [] ev.cv.type = "cubic" -> CubeWP(ev.cv.pts)
              [] ev.cv.type = "chain" -> ChainWP(ev.cv)
              [] ev.cv.type = "bigcubic" -> BezWP(ev.cv.pts, QCH)
              [] ev.cv.type = "arc" /\ ev.cv.shape = "chord2ry" -> (IF ev.cv.ccw THEN << <<0,0>>, <<2 * R * 16, 0>> >> ELSE << <<2 * R * 16, 0>>, <<0,0>> >>)
              [] ev.cv.type = "arc" /\ ev.cv.shape = "chordrx" -> (IF ev.cv.ccw THEN << <<0,0>>, <<R * 32, 0>> >> ELSE << <<R * 32, 0>>, <<0,0>> >>)
              [] OTHER -> LET w == ArcWPu(ev.cv) IN [j \in 1..Len(w) |-> SclPt(w[j], Q(ev))]
\* sagitta of the 60 degree arc: R - sqrt(3/4) R
\* sagitta of the flat arc over the chord 2 ry of the ellipse rx = 3 ry: ry - sqrt(8/9) ry
Chord2RyGap == R * 16 - ISqrtLo((8 * (R * 16) * (R * 16)) \div 9) + 1
ChordRxGap == R * 32 - ISqrtLo((3 * (R * 32) * (R * 32)) \div 4) + 1
GapOf(ev) == CASE ev.cv.type = "quad"  -> QuadGap(ev.cv.pts)
               [] ev.cv.type = "cubic" -> CubeGap(ev.cv.pts)
               [] ev.cv.type = "chain" -> ChainGap(ev.cv)
               [] ev.cv.type = "bigcubic" -> BezGap(ev.cv.pts, QCH)
               [] ev.cv.type = "arc" /\ ev.cv.shape = "chord2ry" -> Chord2RyGap
               [] ev.cv.type = "arc" /\ ev.cv.shape = "chordrx" -> ChordRxGap
               [] OTHER -> ArcGap(ev.cv.shape)
\* index of the sub-path that holds the curve, number of sub-paths (post: a closed triangle follows the curve's sub-path)
CIdx(ev) == IF ev.pre THEN 2 ELSE 1
NSub(ev) == CIdx(ev) + (IF ev.post THEN 1 ELSE 0)
\* the closed triangle M T 0 L T+u 0 L T+u u z after the curve (logged with its start point appended)
PostTri(ev) == LET T == IF ev.cv.type \in {"quad", "cubic"} THEN 5 ELSE 200 u == IF ev.cv.type \in {"quad", "cubic"} THEN 1 ELSE 10 IN
               << <<T, 0>>, <<T + u, 0>>, <<T + u, u>>, <<T, 0>> >>
PreLine == << <<0, 0>>, <<3, 2>> >>
\* ReplaceArcs: "fixed small relative error": 2.5e-3 of the larger radius (calibrated: the conversion of a 90 degree
\* piece is off by 1.96e-3 r; DESIGN assumed 3e-4)
RepR(ev) == CeilDiv(25 * (IF ev.cv.shape \in {"ellipse", "ellipse90"} THEN 2 * R ELSE IF ev.cv.shape = "chord2ry" THEN 3 * R ELSE R) * Q(ev), 10000) + 2
\* radii: flatten uses the tolerance of the call; ReplaceArcs must stay within 3e-4 of the radius, XMonotone is exact
RW(ev) == CASE ev.op = "flatten" -> RadW(Q(ev), ev.tn, ev.td)
            [] ev.op = "replacearcs" -> RepR(ev)
            [] OTHER -> 2
RV(ev) == CASE ev.op = "flatten" -> RadV(Q(ev), ev.tn, ev.td, 0)
            [] ev.op = "replacearcs" -> RepR(ev)
            [] OTHER -> 2

Structure(ev) ==
    /\ ev.ok /\ Len(ev.out) = NSub(ev) /\ Len(ev.cls) = NSub(ev) /\ SqrtsOK(ev.out[CIdx(ev)], ev.sq)
    /\ ev.pre => (ev.out[1] = [j \in 1..2 |-> SclPt(PreLine[j], Q(ev))] /\ ~ev.cls[1])
    /\ ev.post => (ev.out[NSub(ev)] = [j \in 1..4 |-> SclPt(PostTri(ev)[j], Q(ev))] /\ ev.cls[NSub(ev)])
    /\ LET pl == ev.out[CIdx(ev)] wp == WPof(ev) IN
       /\ ev.cls[CIdx(ev)] = ev.closed /\ Len(pl) >= 1
       /\ pl[1] = wp[1]
       /\ IF ev.closed THEN /\ pl[Len(pl)] = wp[1]
                            \* the end point of the curve lies on the closing edge (it is the vertex before the closing
                            \* point unless the builder merged a collinear last segment into the Close)
                            /\ \/ wp[Len(wp)] = wp[1]
                               \/ (Len(pl) >= 2 /\ WithinSeg(pl[Len(pl) - 1], pl[Len(pl)], wp[Len(wp)], 1))
          ELSE pl[Len(pl)] = wp[Len(wp)]
\* the curve part of the output: without the appended closing point
CurvePart(ev) == LET pl == ev.out[CIdx(ev)] IN IF ev.closed /\ Len(pl) >= 2 THEN SubSeq(pl, 1, Len(pl) - 1) ELSE pl
WayPointsNear(ev) == Cover(WPof(ev), 1, ev.out[CIdx(ev)], 1, RW(ev), ev.sq) = 0
\* the accepted constant of the statement ("a small constant multiple of t") is c = 6: ordinary rounded-corner cubics of
\* the unchanged library reach 4.1 - 4.5 t, which is not a defect (c = 4 of the first calibration was a false alarm)
WayPointsNear6(ev) == Cover(WPof(ev), 1, ev.out[CIdx(ev)], 1, (3 * RW(ev)) \div 2, ev.sq) = 0
VerticesNear(ev)  == LET wp == WPof(ev) IN Cover(CurvePart(ev), 1, wp, 1, RV(ev) + GapOf(ev), Sqrts(wp)) = 0
\* circle / ellipse: every vertex in the annulus of half width RV around the curve (the ellipse is judged after stretching
\* its short axis by 2, which enlarges distances by at most 2)
Annulus(ev) ==
    (ev.cv.type = "arc" /\ ev.cv.shape \notin {"chordrx", "chord2ry"}) =>
       LET q == Q(ev) pl == CurvePart(ev) r == RV(ev) IN
       \A j \in 1..Len(pl) :
          LET v == pl[j]
              n2 == CASE ev.cv.shape = "circle"  -> v[1] * v[1] + v[2] * v[2]
                      [] ev.cv.shape = "ellipse" -> v[1] * v[1] + 4 * v[2] * v[2]
                      [] OTHER                   -> 4 * v[1] * v[1] + v[2] * v[2]
              rr == IF ev.cv.shape = "circle" THEN R * q ELSE 2 * R * q
              w  == IF ev.cv.shape = "circle" THEN r ELSE 2 * r
          IN (rr - w) * (rr - w) <= n2 /\ n2 <= (rr + w) * (rr + w)
Mono1(s) == (\A j \in 1..(Len(s) - 1) : s[j] <= s[j + 1] + 1) \/ (\A j \in 1..(Len(s) - 1) : s[j + 1] <= s[j] + 1)
Monotone(ev) == ev.op = "xmonotone" => \A k \in 1..Len(ev.xs) : Mono1(ev.xs[k])

Verdict(ev) == (IF Structure(ev) THEN {} ELSE {"structure"})
               \cup (IF ~Structure(ev) \/ WayPointsNear6(ev) THEN {} ELSE {"waypoint"})
               \cup (IF ~Structure(ev) \/ VerticesNear(ev) THEN {} ELSE {"vertex"})
               \cup (IF ~Structure(ev) \/ Annulus(ev) THEN {} ELSE {"annulus"})
               \cup (IF Monotone(ev) THEN {} ELSE {"mono"})

TInit == e \in 1..Len(Trace) /\ judged = FALSE /\ cv = 0 /\ done = TRUE
Judge == /\ ~judged /\ judged' = TRUE /\ UNCHANGED <<e, cv, done>>
         /\ LET ev == Trace[e] v == Verdict(ev) IN
            v # {} => PrintT("@@" \o ToJson([l |-> e, why |-> v, rw |-> RW(ev), rv |-> RV(ev) + GapOf(ev),
                                             wfail |-> IF Structure(ev) THEN Cover(WPof(ev), 1, ev.out[CIdx(ev)], 1, RW(ev), ev.sq) ELSE 0 - 1]))
TSpec == TInit /\ [][Judge]_tvars
=============================================================================
