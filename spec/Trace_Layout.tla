--------------------------- MODULE Trace_Layout ---------------------------
(* Judge pass for recorded text layouts (property C16).  Every line of trace_layout.ndjson is one observed      *)
(* layout (see the event format in Layout.tla), logged by harness/internal/props/c16 from the real              *)
(* RichText.ToText / WalkLines / Bounds / Heights.  Layouts are independent of each other, so the trace is not  *)
(* a history: the events are judged in parallel through a two-level fan-out                                    *)
(*    <<0,0>>  --chunk c-->  <<1,c>>  --event i of chunk c-->  <<2,i>>                                           *)
(* The step to <<2,i>> is enabled only if LFails(Trace[i]) = {} (all post-conditions of Layout hold).           *)
(* TraceAccepted: every event was reached, i.e. the number of distinct states is 1 + chunks + Len(Trace).       *)
(* With CheckObs = FALSE nothing is rejected and the failed post-conditions of every event are printed.         *)
EXTENDS Layout
CONSTANTS CheckObs, ChunkSize
Trace == ndJsonDeserialize("trace_layout.ndjson")
VARIABLE st
jvars == <<lvars, st>>
NChunks == (Len(Trace) + ChunkSize - 1) \div ChunkSize
JInit == items = <<>> /\ width = 0 /\ ph = 1 /\ lt = <<>> /\ sc = <<>> /\ st = <<0, 0>>
JChunk == st = <<0, 0>> /\ \E c \in 1..NChunks : st' = <<1, c>> /\ UNCHANGED lvars
JEvent == /\ st[1] = 1
          /\ \E i \in ((st[2] - 1) * ChunkSize + 1)..Min2(st[2] * ChunkSize, Len(Trace)) :
                /\ st' = <<2, i>>
                /\ IF CheckObs THEN LFails(Trace[i]) = {}
                   ELSE (LFails(Trace[i]) # {} => PrintT("@@" \o ToJson(LExplain(Trace[i]))))
          /\ UNCHANGED lvars
JNext == JChunk \/ JEvent
JSpec == JInit /\ [][JNext]_jvars
TraceAccepted == TLCGet("distinct") = 1 + NChunks + Len(Trace)
=============================================================================
