------------------------------ MODULE FontEmbed ------------------------------
(* Property C18: embedded fonts and glyph paths reproduce the laid-out text.                         *)
(*                                                                                                  *)
(* Part A - the glyph subsetter (canvas.FontSubsetter) as a state machine: a sequence of glyph ids  *)
(*   with .notdef at index 0; Get(g) returns the code of g and appends g iff it is new.  Invariants *)
(*   (model-checked): .notdef at zero, injective, dense, functional; action property: stable.       *)
(*   TLC enumerates all call sequences (replayed on the real FontSubsetter); the same machine is     *)
(*   driven by Trace_FontEmbed with the (glyph, code) pairs decoded from real PDF content streams.   *)
(* Part B - predicates over the decoded embedded font (W array, ToUnicode CMap, CIDToGIDMap,         *)
(*   Encoding, embedded font program) and the shown codes (TJ strings and adjustments), relative to  *)
(*   the laid-out glyphs (id, advances, cluster characters) and the source font (advance, outline).  *)
(*   All arithmetic is done here, on integers logged by the driver.                                  *)
(* Part C - predicates over FontFace.ToPath / TextWidth results.                                     *)
(* Scenario generation: documents = texts over an 18-character alphabet x font x subset x writing    *)
(*   mode x "font object already used by an earlier subsetting document".                            *)
EXTENDS Integers, Sequences, FiniteSets, TLC, Json, Randomization

CONSTANTS Gen,      \* "subsetter" | "short" | "modes" | "random" | "wruns" | "trace"
          \* measured by the driver from the source fonts (font 1 DejaVuSerif, 2 EB Garamond, 3 Dynalight): Eqf = code points of
          \* one class of glyphs with a common advance (different from the .notdef advance), Dwf = code points whose glyph has
          \* the .notdef advance (= DW of the embedded CIDFont).  Empty in all configurations but "wruns".
          Eq1, Eq2, Eq3, Dw1, Dw2, Dw3,
          EmitAt,   \* subsetter histories are printed at this length
          NRand, StrLen

Range(s) == {s[i] : i \in 1..Len(s)}
Abs(x) == IF x < 0 THEN 0 - x ELSE x
RECURSIVE Pre(_, _)
Pre(f, i) == IF i = 0 THEN 0 ELSE f[i] + Pre(f, i - 1)     \* f[1] + .. + f[i] for a sequence of integers

(***************************************************************************************************)
(* Part A: the subsetter                                                                           *)
(***************************************************************************************************)
VARIABLES ids,    \* glyph ids in order of their codes: ids[c + 1] is the glyph with code c
          hist,   \* calls so far: [g, code]
          doc     \* generated document scenario (text generation modes), else NoDoc; in Trace_FontEmbed: the decoded document
vars == <<ids, hist, doc>>

Gids == {0, 3, 36, 65535}
CodeOf(s, g) == IF \E i \in 1..Len(s) : s[i] = g THEN (CHOOSE i \in 1..Len(s) : s[i] = g) - 1 ELSE -1
\* Get(g): the value returned and the new state
GetCode(s, g) == IF CodeOf(s, g) = -1 THEN Len(s) ELSE CodeOf(s, g)
GetNext(s, g) == IF CodeOf(s, g) = -1 THEN Append(s, g) ELSE s
Get(g) == /\ ids' = GetNext(ids, g)
          /\ hist' = Append(hist, [g |-> g, code |-> GetCode(ids, g)])
          /\ UNCHANGED doc
NewSubsetter == <<0>>

\* invariants
NotdefAtZero == ids[1] = 0
Injective == \A i, j \in 1..Len(ids) : i # j => ids[i] # ids[j]
Dense == {hist[i].code : i \in 1..Len(hist)} \cup {0} = 0..(Len(ids) - 1)
Functional == \A i, j \in 1..Len(hist) : hist[i].g = hist[j].g <=> hist[i].code = hist[j].code
CodesPointBack == \A i \in 1..Len(hist) : ids[hist[i].code + 1] = hist[i].g
Stable == [][/\ Len(ids') >= Len(ids) /\ \A i \in 1..Len(ids) : ids'[i] = ids[i]]_vars

(***************************************************************************************************)
(* scenario generation                                                                             *)
(***************************************************************************************************)
\* characters by index; 18 is a non-BMP character of the font (font 1: U+1D434, font 2: U+1F1E6)
Chars == <<65, 86, 102, 105, 97, 32, 84, 111, 49, 50, 51, 52, 53, 54, 233, 255, 256, -1>>   \* A V f i a sp T o 1-6 e' y" A-
Astral(font) == IF font = 1 THEN 119860 ELSE IF font = 2 THEN 127462 ELSE 241    \* Dynalight has no non-BMP character: n-tilde
CP(font, i) == IF Chars[i] = -1 THEN Astral(font) ELSE Chars[i]
CoreChars == 1..9 \ {8}          \* A V f i a space T 1 : kerning pair AV, ligature / alternates fi, repeated glyphs
Modes == {"H", "VU", "VN"}       \* horizontal | vertical-rl upright (vertical glyph run) | vertical-rl natural (rotated run)
\* "H2": the same horizontal text line broken into two lines in the middle (the second line's spans have y # 0)
Text(s, m) == [s |-> s, mode |-> m, raw |-> FALSE]      \* s: indices into Chars
RawText(cps, m) == [s |-> cps, mode |-> m, raw |-> TRUE]  \* s: code points
\* variant: 0 FontNormal, 1 FontSubscript, 2 FontSuperscript (family.Face(size, colour, style, variant))
\* style: 0 regular, 1 italic requested from the family that has only the regular font (=> faux italic: sheared glyphs)
\* feat: OpenType features set on the font with SetFeatures: 0 none, 1 "-kern", 2 "-liga"
DocF(f, sub, z, reuse, v, st, ft, ts) == [font |-> f, subset |-> sub, compress |-> z, reuse |-> reuse, variant |-> v, style |-> st, feat |-> ft, texts |-> ts]
DocS(f, sub, z, reuse, v, st, ts) == DocF(f, sub, z, reuse, v, st, 0, ts)
DocV(f, sub, z, reuse, v, ts) == DocS(f, sub, z, reuse, v, 0, ts)
Doc(f, sub, z, reuse, ts) == DocV(f, sub, z, reuse, 0, ts)
NoDoc == Doc(0, FALSE, FALSE, 0, <<>>)
Tail6 == <<1, 2, 3, 4, 6, 9>>    \* "AVfi 1": drawn as the second text of every short document (code stability across draws)
Digits == <<9, 10, 11, 12, 13, 14, 9, 5, 15>>    \* "1234561a e'": six equal widths in a row => range form of W
ShortStrings == UNION {[1..n -> CoreChars] : n \in 1..3}
ModeStrings == {<<1, 2, 3, 4>>, <<5, 9, 9>>, Tail6}
\* U+00FF U+0100 as neighbours (a ToUnicode range over them would have to carry into the high byte); the non-BMP character
\* (surrogate pair in ToUnicode); seven digits then letters (W range form followed by a list)
EdgeStrings == {<<5, 16, 17, 5>>, <<17, 16>>, <<1, 18, 2>>, <<18, 18, 5>>, <<9, 10, 11, 12, 13, 14, 1, 2, 9>>}
\* ---- W array scenarios: runs of k equal-advance characters next to a character with the DW advance ------------------
RECURSIVE Sorted(_)
Sorted(S) == IF S = {} THEN <<>> ELSE LET m == CHOOSE x \in S : \A y \in S : x <= y IN <<m>> \o Sorted(S \ {m})
EqSeq(f) == Sorted(CASE f = 1 -> Eq1 [] f = 2 -> Eq2 [] f = 3 -> Eq3)
DwSeq(f) == Sorted(CASE f = 1 -> Dw1 [] f = 2 -> Dw2 [] f = 3 -> Dw3)
Window(q, o, k) == SubSeq(q, o, o + k - 1)
Windows(q, ks) == UNION {{Window(q, 1, k), Window(q, Len(q) - k + 1, k)} : k \in {j \in ks : j <= Len(q)}}
\* neighbours of a run: the DW-advance characters (at most two) and one ordinary letter
Neighbours(f) == {DwSeq(f)[i] : i \in 1..(IF Len(DwSeq(f)) < 2 THEN Len(DwSeq(f)) ELSE 2)} \cup {65}
WRunStrings(f) ==
       UNION {{r \o <<d>>, <<d>> \o r, <<86>> \o r \o <<d, 84>>, <<d>> \o r \o <<d>>} : r \in Windows(EqSeq(f), 4..7), d \in Neighbours(f)}
  \cup (IF Len(DwSeq(f)) >= 4 /\ Len(EqSeq(f)) >= 1      \* a run of DW-advance characters itself (its W entry may be omitted)
        THEN UNION {{r \o <<EqSeq(f)[1]>>, <<EqSeq(f)[1]>> \o r \o <<65>>} : r \in Windows(DwSeq(f), 4..6)} ELSE {})
VariantStrings == {Tail6, Digits, <<7, 8, 3, 8, 6, 5>>}
\* combining marks the shaper attaches by GPOS (non-zero glyph offsets) in the middle of a word: a q U+0303 b, g U+0308 x x,
\* q U+0303 U+0308 A V, n U+0308 a.  (The driver skips a document whose font lacks one of the characters.)
\* more than 150 distinct glyphs of one font in one document (U+0021..U+007E, U+00C0..U+00FF): the two-byte codes pass
\* 0x0A, 0x0D, 0x28, 0x29 and 0x5C, the bytes that need an escape inside a literal string
LongString == [i \in 1..158 |-> IF i <= 94 THEN 32 + i ELSE 97 + i]
\* more than 350 distinct glyphs (Latin, Latin-1, Latin Extended-A, Greek, Cyrillic): codes of the second byte page (0x0128,
\* 0x0129, 0x015C: low byte ( ) \ ) are handed out.  Fonts without these characters skip the document.
Rng(a, b) == [i \in 1..(b - a + 1) |-> a + i - 1]
LongString2 == Rng(33, 126) \o Rng(161, 172) \o Rng(174, 255) \o Rng(256, 383) \o Rng(913, 929) \o Rng(931, 969) \o Rng(1040, 1103)
\* kerning pairs and ligatures: "AVTo ffl fi"
FeatString == <<65, 86, 84, 111, 32, 102, 102, 108, 32, 102, 105>>
MarkStrings == {<<97, 113, 771, 98>>, <<103, 776, 120, 120>>, <<113, 771, 776, 65, 86>>, <<110, 776, 97>>}

Init ==
  /\ ids = NewSubsetter /\ hist = <<>>
  /\ CASE Gen = "short" ->  doc \in {Doc(f, sub, TRUE, 0, <<Text(s, "H"), Text(Tail6, "H")>>) : f \in 1..2, sub \in BOOLEAN, s \in ShortStrings}
       [] Gen = "modes" ->  doc \in    {Doc(f, sub, TRUE, r, <<Text(s, m1), Text(Digits, m2)>>) : f \in 1..2, sub \in BOOLEAN, r \in 0..1, s \in ModeStrings, m1 \in Modes, m2 \in Modes}
                                  \cup {Doc(f, sub, z, r, <<Text(Digits, "H")>>) : f \in 1..2, sub \in BOOLEAN, z \in BOOLEAN, r \in 0..1}
                                  \cup {Doc(f, sub, TRUE, 0, <<Text(s, m)>>) : f \in 1..3, sub \in BOOLEAN, s \in EdgeStrings, m \in Modes}
                                  \cup {DocV(f, sub, TRUE, 0, v, <<Text(s, "H"), Text(Tail6, m)>>) : f \in 1..3, sub \in BOOLEAN, v \in 1..2, s \in VariantStrings, m \in {"H", "VN"}}
                                  \* placement of spans: two-line texts (second line at y # 0), regular and faux italic
                                  \cup {DocS(f, sub, TRUE, 0, 0, st, <<Text(s, "H2"), Text(Tail6, "H")>>) : f \in 1..3, sub \in BOOLEAN, st \in 0..1, s \in VariantStrings}
                                  \cup {DocS(f, TRUE, TRUE, 0, v, 0, <<Text(s, "H2")>>) : f \in 1..3, v \in 1..2, s \in VariantStrings}
                                  \* many distinct glyphs; OpenType features switched off on the font
                                  \cup {DocS(f, sub, z, 0, 0, 0, <<RawText(LongString, "H")>>) : f \in 1..3, sub \in BOOLEAN, z \in BOOLEAN}
                                  \cup {DocS(f, sub, TRUE, 0, 0, 0, <<RawText(LongString2, "H")>>) : f \in 1..3, sub \in BOOLEAN}
                                  \cup {DocF(f, sub, TRUE, 0, 0, 0, ft, <<RawText(FeatString, "H"), Text(Tail6, "H")>>) : f \in 1..3, sub \in BOOLEAN, ft \in 0..2}
                                  \* glyph offsets (mark attachment) followed by further glyphs
                                  \cup {DocS(f, sub, TRUE, 0, 0, 0, <<RawText(s, "H")>>) : f \in 1..3, sub \in BOOLEAN, s \in MarkStrings}
       [] Gen = "wruns" ->  doc \in UNION {{Doc(f, sub, TRUE, 0, <<RawText(s, "H")>>) : sub \in BOOLEAN, s \in WRunStrings(f)} : f \in 1..3}
       [] Gen = "random" -> doc \in {DocV(f, sub, TRUE, r, v, <<Text(s, "H")>>) : f \in 1..3, sub \in BOOLEAN, r \in 0..1, v \in {0}, s \in RandomSubset(NRand, [1..StrLen -> 1..18])}
                                \cup {DocV(f, sub, TRUE, 0, v, <<Text(s, "H")>>) : f \in 1..3, sub \in BOOLEAN, v \in 1..2, s \in RandomSubset(NRand \div 4 + 1, [1..StrLen -> 1..18])}
                                \cup {Doc(f, sub, FALSE, 0, <<Text(s, m)>>) : f \in 1..2, sub \in BOOLEAN, m \in {"VU", "VN"}, s \in RandomSubset(NRand \div 8 + 1, [1..StrLen -> 1..18])}
       [] OTHER -> doc = NoDoc
TextCps(f, t) == IF t.raw THEN t.s ELSE [i \in 1..Len(t.s) |-> CP(f, t.s[i])]
Emitted == doc.font # 0 => PrintT("@@" \o ToJson([doc |-> doc, cps |-> [t \in 1..Len(doc.texts) |-> TextCps(doc.font, doc.texts[t])]]))
EmitInv == /\ (Gen = "subsetter" /\ Len(hist) = EmitAt) => PrintT("@@" \o ToJson([hist |-> hist, list |-> ids]))
           /\ (Gen \in {"short", "modes", "random", "wruns"}) => Emitted
Next == Gen \in {"subsetter", "mc"} /\ Len(hist) < EmitAt /\ \E g \in Gids : Get(g)
Spec == Init /\ [][Next]_vars

(***************************************************************************************************)
(* Part B: the embedded font and the shown codes                                                   *)
(***************************************************************************************************)
\* Records (built by harness/internal/props/c18 from oracle.ParsePDF + oracle/pdffont.go):
\*  D (document): [kind ("ttf" | "cff"), subset, reuse, upm, hv, fonts, spans, unreadable]
\*  F (one PDF font object): [enc, subtype, dw, w : <<[t |-> "list", c, ws] | [t |-> "range", c, c2, wd]>>, tuc : <<[c, u]>>, tur : <<[lo, hi, u]>>,
\*      hasmap, map : <<gid>>, ng (glyphs in the embedded program; -1 unreadable), csok, maxcode, w1 (vertical displacement: DW2[2], default -1000)]
\*  E (one shown glyph, in content stream order): [f (index of the font object), span (index of its span), code, adj (TJ number after the glyph, 0 if none),
\*      g, xadv, yadv, vert, cluster : <<code points>>, rev (code point the source cmap gives for g, 0 if none), adv (source advance of g),
\*      src, eid, emap : glyph signatures [n, h, adv, x0, y0, x1, y1] of the source glyph g and of the embedded glyphs number code / map[code]]
Round1000(a, upm) == (2000 * a + upm) \div (2 * upm)        \* round(1000 a / upm), a >= 0

\* W array (9.7.4.3): c [w1 .. wn]  |  cfirst clast w ; codes not covered have width DW
WEntry(F, c) == {i \in 1..Len(F.w) : IF F.w[i].t = "list" THEN c >= F.w[i].c /\ c < F.w[i].c + Len(F.w[i].ws)
                                     ELSE c >= F.w[i].c /\ c <= F.w[i].c2}
WidthOf(F, c) == IF WEntry(F, c) = {} THEN F.dw
                 ELSE LET e == F.w[CHOOSE i \in WEntry(F, c) : \A j \in WEntry(F, c) : i <= j]
                      IN IF e.t = "list" THEN e.ws[c - e.c + 1] ELSE e.wd
\* ToUnicode: bfchar  <c> <utf16> ; bfrange <lo> <hi> <utf16>  (last unit incremented)
RECURSIVE Units(_)
Units(u) == IF u = <<>> THEN <<>>
            ELSE IF u[1] >= 55296 /\ u[1] <= 56319 /\ Len(u) >= 2 /\ u[2] >= 56320 /\ u[2] <= 57343
                 THEN <<65536 + (u[1] - 55296) * 1024 + (u[2] - 56320)>> \o Units(SubSeq(u, 3, Len(u)))
                 ELSE <<u[1]>> \o Units(Tail(u))
TUChar(F, c) == {i \in 1..Len(F.tuc) : F.tuc[i].c = c}
TURange(F, c) == {i \in 1..Len(F.tur) : c >= F.tur[i].lo /\ c <= F.tur[i].hi}
ToUnicode(F, c) ==      \* sequence of code points; <<-1>> when the code has no mapping
  IF TUChar(F, c) # {} THEN Units(F.tuc[CHOOSE i \in TUChar(F, c) : TRUE].u)
  ELSE IF TURange(F, c) # {} THEN LET e == F.tur[CHOOSE i \in TURange(F, c) : TRUE]
                                      n == Len(e.u)
                                  IN Units([k \in 1..n |-> IF k = n THEN e.u[k] + (c - e.lo) ELSE e.u[k]])
  ELSE <<-1>>
\* a bfrange may only increment the last byte of its destination (Adobe TN 5411): no carry
RangesWellFormed(F) == \A i \in 1..Len(F.tur) : LET e == F.tur[i] IN
                          /\ e.lo <= e.hi /\ e.lo \div 256 = e.hi \div 256
                          /\ Len(e.u) >= 1 /\ (e.u[Len(e.u)] % 256) + (e.hi - e.lo) <= 255
\* characters a reader may recover for a cluster: the cluster itself or the compatibility ligature code point
Ligature(cl) == CASE cl = <<102, 102>> -> 64256 [] cl = <<102, 105>> -> 64257 [] cl = <<102, 108>> -> 64258
                  [] cl = <<102, 102, 105>> -> 64259 [] cl = <<102, 102, 108>> -> 64260 [] OTHER -> -1
Recovers(tu, cl) == tu = cl \/ (Len(tu) = 1 /\ tu[1] = Ligature(cl) /\ tu[1] # -1)
\* the glyph of the embedded program a code selects (9.7.4.2): CIDToGIDMap applies to Type 2 CIDFonts only; a Type 0
\* CIDFont with a name-keyed CFF program uses the CID as glyph index
UsesMap(F) == F.subtype = "CIDFontType2" /\ F.hasmap
EmbGid(F, E) == IF UsesMap(F) THEN (IF E.code < Len(F.map) THEN F.map[E.code + 1] ELSE -1) ELSE E.code
EmbSig(F, E) == IF UsesMap(F) THEN E.emap ELSE E.eid

\* scenario features that go into a signature: font kind, embedding, font object used before by a subsetting document
Feat(D) == D.kind \o (IF D.subset THEN ":subset" ELSE ":full") \o (IF D.reuse > 0 THEN ":reused" ELSE "")
\* In a document that uses one font horizontally and vertically (D.hv) every per-glyph deviation of codes, widths, characters
\* and pen advances gets the one signature "hv-shared-font"; outline deviations too, unless the scenario has the features of the
\* CFF embedding findings (full embedding, or a font object damaged by an earlier subsetting), which keep their own signature.
Hv(D, sig) == IF D.hv THEN "hv-shared-font" ELSE sig
CffFeature(D) == D.kind = "cff" /\ (~D.subset \/ D.reuse > 0)
\* deviation signatures of one shown glyph.  D: [font, subset, reuse, upm, hv], sub: state of the subsetter machine before the call
GlyphDiag(D, F, E, sub) ==
       (IF E.code = GetCode(sub, E.g) THEN {} ELSE {Hv(D, "subsetter-code-unstable:" \o Feat(D))})
  \cup (IF F.ng < 0 \/ (EmbGid(F, E) >= 0 /\ EmbGid(F, E) < F.ng) THEN {} ELSE {Hv(D, "code-undefined:" \o Feat(D))})   \* ng < 0: program unreadable, reported once per document
  \cup (IF WidthOf(F, E.code) = Round1000(E.adv, D.upm) THEN {} ELSE {Hv(D, "width-wrong:" \o Feat(D))})
  \cup (IF Recovers(ToUnicode(F, E.code), E.cluster) THEN {}
        ELSE IF ToUnicode(F, E.code) = <<0>> /\ E.rev = 0 THEN {"tounicode-zero-for-unmapped-glyph"}      \* glyph reached by substitution only
        ELSE {Hv(D, "tounicode-wrong:" \o Feat(D))})
  \cup (IF F.ng < 0 \/ EmbGid(F, E) < 0 \/ EmbGid(F, E) >= F.ng \/ EmbSig(F, E) = E.src THEN {}
        ELSE IF CffFeature(D) THEN {"glyph-differs:" \o Feat(D)}
        \* subsetting was requested but the embedded CFF program has (many) more glyphs than codes were handed out: the writer
        \* fell back to the full font while the content stream keeps subset codes
        ELSE IF D.kind = "cff" /\ D.subset /\ F.ng > F.maxcode + 2 THEN {"glyph-differs:" \o Feat(D) \o ":fallback-full-font"}
        ELSE {Hv(D, "glyph-differs:" \o Feat(D))})
  \cup (IF E.vert THEN (IF Abs((F.w1 - E.adj) * D.upm - 1000 * E.yadv) <= 2 * D.upm THEN {} ELSE {Hv(D, "pen-advance-wrong:vertical:" \o Feat(D))})
        ELSE (IF Abs((WidthOf(F, E.code) - E.adj) * D.upm - 1000 * E.xadv) <= 2 * D.upm THEN {} ELSE {Hv(D, "pen-advance-wrong:" \o Feat(D))}))
  \cup (IF E.vert /\ F.enc # "Identity-V" THEN {"vertical-span-not-identity-v"}
        ELSE IF ~E.vert /\ F.enc # "Identity-H" THEN {"horizontal-span-not-identity-h"} ELSE {})

CodeDefined(D, F, E) == EmbGid(F, E) >= 0 /\ EmbGid(F, E) < F.ng
WidthExact(D, F, E) == WidthOf(F, E.code) = Round1000(E.adv, D.upm)
ToUnicodeRecovers(F, E) == Recovers(ToUnicode(F, E.code), E.cluster)
GlyphProgramEqual(F, E) == EmbSig(F, E) = E.src
PenAdvance(D, F, E) == IF E.vert THEN Abs((F.w1 - E.adj) * D.upm - 1000 * E.yadv) <= 2 * D.upm
                       ELSE Abs((WidthOf(F, E.code) - E.adj) * D.upm - 1000 * E.xadv) <= 2 * D.upm
VerticalIdentityV(F, E) == E.vert <=> F.enc = "Identity-V"

\* document level: CMap ranges well formed; span widths = sum of the laid-out advances (in font units of the face's scale
\* Size / unitsPerEm); the font size of the PDF text object is the face's size; and the PDF agrees with the layout on where
\* the text ends: span width (micrometres) = (sum over the span's shown codes of W - TJ, in 1/1000 em) x Tf size.
\* pen: per span the sum of (W - TJ) [(TJ - w1) for vertical glyphs] accumulated by Trace_FontEmbed over the GET events
\* spans: <<[w, sum, um (span width in um), size (face size in um), tf (Tf operand in um), n (glyphs),
\*           chk (horizontal, unrotated span whose text matrix could be read), tm, pm, sh, fox, foy,
\*           pchk (pm recorded), vm (view matrix), wx, wy (WalkSpans origin, um), rot (degrees)]>>
PenOf(F, E) == IF E.vert THEN E.adj - F.w1 ELSE WidthOf(F, E.code) - E.adj
SpanAgreeDiag(D, pen) ==
  UNION {    (IF Abs(D.spans[i].tf - D.spans[i].size) <= 1 THEN {} ELSE {"pdf-font-size-differs-from-face-size"})
        \cup (IF Abs(1000 * D.spans[i].um - pen[i] * D.spans[i].tf) <= (2 * D.spans[i].n + 2) * D.spans[i].tf + Abs(pen[i]) THEN {}
              ELSE {"pdf-advance-differs-from-span-width"})
        : i \in 1..Len(D.spans)}
\* an embedded font program the (trusted) parser cannot read: narrow signature when the independent structural reader of
\* the driver finds the Top DICT's CharStrings offset not pointing at an INDEX (F.csok = 0)
ProgramDiag(D, F) == IF F.ng >= 0 THEN {}
                     ELSE IF F.csok = 0 THEN {"embedded-cff-charstrings-offset-wrong:" \o Feat(D)}
                     ELSE {"embedded-font-unreadable:" \o Feat(D)}
\* Where the text is: the text matrix of a span's text object (tm) against the matrix under which Text.RenderAsPath draws the
\* same span's glyph path (pm).  Matrices are <<a, b, c, d, e, f>> (x' = a x + c y + e, y' = b x + d y + f) with the linear part in
\* 1/10000 and the origin in micrometres.  The glyph path carries the face's faux-italic shear sh (1/10000) and the face's
\* sub/superscript offset (fox, foy, micrometres) itself, the PDF has them in the text matrix:
\*      tm = pm . Translate(fox, foy) . Shear(sh, 0)          (tolerance 3 units)
K == 10000
SpanPlacedDiag(D) ==
  UNION {IF ~D.spans[i].chk THEN {}
         ELSE LET t == D.spans[i].tm  p == D.spans[i].pm  sh == D.spans[i].sh
                  ex == <<p[1], p[2], (p[1] * sh) \div K + p[3], (p[2] * sh) \div K + p[4],
                         p[5] + (p[1] * D.spans[i].fox + p[3] * D.spans[i].foy) \div K,
                         p[6] + (p[2] * D.spans[i].fox + p[4] * D.spans[i].foy) \div K>>
              IN  (IF \A k \in 1..4 : Abs(t[k] - ex[k]) <= 3 THEN {} ELSE {"pdf-text-matrix-differs-from-path-rendering"})
             \cup (IF \A k \in 5..6 : Abs(t[k] - ex[k]) <= 3 THEN {} ELSE {"pdf-span-origin-differs-from-path-rendering"})
         : i \in 1..Len(D.spans)}
\* Path rendering against the layout: Text.RenderAsPath must draw a span's glyph path under  view . Translate(origin) .
\* Rotate(rot)  where origin is the span origin Text.WalkSpans reports (without the face offset, which the glyph path carries)
\* and rot the span's rotation (Latin text set sideways in a vertical writing mode: -90 degrees) - the span turns about its
\* own origin.  Exact for multiples of 90 degrees; other angles are not constrained.
Cos(r) == CASE r = 0 -> K [] r \in {90, -270} -> 0 [] r \in {180, -180} -> 0 - K [] r \in {-90, 270} -> 0 [] OTHER -> 0
Sin(r) == CASE r = 0 -> 0 [] r \in {90, -270} -> K [] r \in {180, -180} -> 0 [] r \in {-90, 270} -> 0 - K [] OTHER -> 0
RightAngle(r) == r \in {0, 90, -90, 180, -180, 270, -270}
MD(a, b) == a * (b \div K) + (a * (b % K)) \div K      \* a * b / K without leaving 32 bits (|a| <= about K, b an origin in um)
MMul(p, q) == <<(p[1] * q[1] + p[3] * q[2]) \div K, (p[2] * q[1] + p[4] * q[2]) \div K,     \* linear parts in 1/K
                (p[1] * q[3] + p[3] * q[4]) \div K, (p[2] * q[3] + p[4] * q[4]) \div K,
                MD(p[1], q[5]) + MD(p[3], q[6]) + p[5], MD(p[2], q[5]) + MD(p[4], q[6]) + p[6]>>
PathPlacedDiag(D) ==
  UNION {IF ~D.spans[i].pchk \/ ~RightAngle(D.spans[i].rot) THEN {}
         ELSE LET sp == D.spans[i]
                  ex == MMul(sp.vm, <<Cos(sp.rot), Sin(sp.rot), 0 - Sin(sp.rot), Cos(sp.rot), sp.wx - sp.fox, sp.wy - sp.foy>>)
              IN IF \A k \in 1..6 : Abs(sp.pm[k] - ex[k]) <= 3 THEN {}
                 ELSE IF sp.rot = 0 THEN {"path-rendering-span-misplaced"} ELSE {"path-rendering-rotated-span-misplaced"}
         : i \in 1..Len(D.spans)}
DocDiag(D) ==
     UNION {IF RangesWellFormed(D.fonts[i]) THEN {} ELSE {"tounicode-range-crosses-byte"} : i \in 1..Len(D.fonts)}
  \cup UNION {ProgramDiag(D, D.fonts[i]) : i \in 1..Len(D.fonts)}
  \cup UNION {IF D.spans[i].w = D.spans[i].sum THEN {} ELSE {"span-width-differs"} : i \in 1..Len(D.spans)}
  \cup (IF D.unreadable = 0 THEN {} ELSE {"font-unreadable"})

(***************************************************************************************************)
(* Part C: FontFace.ToPath / TextWidth                                                             *)
(***************************************************************************************************)
\* P: [kind, reuse, err (ToPath returned an error), gl : <<[xadv, yadv, xoff, yoff, vert, n, x0, y0 (source glyph box), ox0, oy0 (observed box in the path)]>>, xoff0, yoff0,
\*     tw (TextWidth in font units), ret (advance returned by ToPath), split (the path could be split per glyph), grid]
PathDiag(P) ==
  LET n == Len(P.gl)
      xa == [i \in 1..n |-> P.gl[i].xadv]
      ya == [i \in 1..n |-> P.gl[i].yadv]
      hor == [i \in 1..n |-> IF P.gl[i].vert THEN 0 - P.gl[i].yadv ELSE P.gl[i].xadv]
      feat == P.kind \o (IF P.reuse > 0 THEN ":reused" ELSE "")
  IN   (IF ~P.err THEN {} ELSE {"topath-error:" \o feat})
  \cup (IF P.err \/ (P.grid /\ P.split) THEN {} ELSE {"topath-structure"})
  \cup (IF ~(P.grid /\ P.split) \/ \A i \in 1..n : P.gl[i].n = 0 \/
              /\ Abs((P.gl[i].ox0 - P.gl[i].x0) - (P.xoff0 + Pre(xa, i - 1) + P.gl[i].xoff)) <= 1
              /\ Abs((P.gl[i].oy0 - P.gl[i].y0) - (P.yoff0 + Pre(ya, i - 1) + P.gl[i].yoff)) <= 1
        THEN {} ELSE {"topath-glyph-misplaced"})
  \cup (IF P.tw = Pre(hor, n) THEN {} ELSE {"textwidth-differs"})
  \* TextWidth against the width of the span a text line of the same string gets (sw; -1: the line has several spans)
  \cup (IF P.sw < 0 \/ P.tw = P.sw THEN {} ELSE {"textwidth-differs-from-span-width"})
  \cup (IF P.sw < 0 \/ P.err \/ P.xoff0 # 0 \/ P.ret = P.sw THEN {} ELSE {"topath-advance-differs-from-span-width"})
  \cup (IF P.err \/ P.xoff0 # 0 \/ P.ret = Pre(xa, n) THEN {} ELSE {"topath-advance-differs"})
=============================================================================
