------------------------ MODULE Trace_KnuthPlass ------------------------
(* Trace validation for text.Linebreak: every event is one recorded call                              *)
(*   [op |-> "LB", items, width, h, wq, brk, wd, rt, ok]                                              *)
(* items/width are integers (exact instances: h = 0; quantised real layouts: h = 1, every logged      *)
(* length is within half a unit of the real one), brk the returned positions (0-based), wd the        *)
(* reported widths times wq, rt the reported ratios times RQ (rounded), ok the second return value.   *)
(* The operators of KnuthPlass re-compute legality, forced breaks, natural widths, ratios and         *)
(* feasibility from the logged items; the event is accepted only if the logged result agrees.         *)
(* For instances of this size the optimum is not enumerated; feasibility is bound by a greedy         *)
(* construction: if first-fit yields a surely feasible complete breaking, the result must not contain *)
(* a surely infeasible line and overflow must not be reported.                                        *)
(* With CheckObs = FALSE nothing is rejected; the failed checks of every event are printed instead    *)
(* (used to turn a rejection into call-level witnesses, and by Driver.Replay).                        *)
EXTENDS KnuthPlass
CONSTANT CheckObs
Trace == ndJsonDeserialize("trace_kp.ndjson")
VARIABLE l
tvars == <<vars, l>>
Ev == Trace[l]

\* ---- the returned lines ------------------------------------------------------------------------------
Brk1(e) == [j \in 1..Len(e.brk) |-> e.brk[j] + 1]
StartOf(s, j) == IF j = 1 THEN 0 ELSE s[j-1]
NItems(it, a, b) == Max2(0, b - After(it, a)) + 2
LineOK(e, s, j) ==
  LET it == e.items  a == StartOf(s, j)  b == s[j]
      L == NatW(it, a, b)  Y == NatY(it, a, b)  Z == NatZ(it, a, b)
      sl == Slack(NItems(it, a, b), e.h)
      bx == RatioBox(e.width, L, Y, Z, sl, e.h)
      cls == BoxCls(e.width, L, Y, Z, sl, e.h)
      inbox == bx.def /\ bx.lo <= e.rt[j] /\ e.rt[j] <= bx.hi
  IN [w |-> Abs(e.wd[j] - e.wq * L) <= e.wq * sl + e.h,
      r |-> IF cls = "F" THEN inbox
            ELSE IF bx.un THEN e.rt[j] = 0                       \* exact instance, ratio undefined: left unadjusted
            ELSE IF bx.def THEN (inbox \/ e.rt[j] = 0)           \* outside / borderline: true ratio, or 0 = left unadjusted
            ELSE TRUE,
      cls |-> cls, L |-> L, lo |-> bx.lo, hi |-> bx.hi, e |-> After(it, a) > b]

\* ---- greedy (first-fit) construction of a surely feasible breaking -------------------------------------
\* from start a scan the legal breakpoints b > a in order, remembering the last one whose line a -> b is surely
\* feasible; stop at a forced break (take it if feasible) or when the line can surely not shrink to fit any more.
RECURSIVE Scan(_, _, _, _, _, _, _, _, _)
Scan(it, w, h, a, j, L, Y, Z, best) ==
  \* L, Y, Z: sums of the boxes and glue in After(a)..j-1 ; j: next position to look at
  IF j > Len(it) THEN best
  ELSE LET x == it[j]
           k == Max2(0, j - After(it, a)) + 2
           sl == Slack(k, h)
           Lb == L + (IF IsPen(x) THEN x[2] ELSE 0)
           ok == LegalAt(it, j) /\ BoxCls(w, Lb, Y, Z, sl, h) = "F"
           nb == IF ok THEN j ELSE best
       IN IF IsForced(x) THEN nb
          ELSE IF L - Z - sl > w + h THEN best
          ELSE Scan(it, w, h, a, j + 1,
                    L + (IF x[1] \in {0, 1} THEN x[2] ELSE 0), Y + (IF IsGlue(x) THEN x[3] ELSE 0), Z + (IF IsGlue(x) THEN x[4] ELSE 0), nb)
RECURSIVE Greedy(_, _, _, _)
Greedy(it, w, h, a) ==      \* TRUE iff first-fit reaches the end
  IF a = Len(it) THEN TRUE
  ELSE LET s == After(it, a)
           b == Scan(it, w, h, a, s, 0, 0, 0, 0)
       IN IF b = 0 \/ b <= a THEN FALSE ELSE Greedy(it, w, h, b)
\* first-fit only looks from After(a) on; a legal breakpoint between a and After(a) is never needed by it.

\* ---- cheap local forms of the scenario features (see Features in KnuthPlass) ----------------------------
NextLegal(it, b) == LET S == {i \in (b+1)..Len(it) : LegalAt(it, i)} IN IF S = {} THEN 0 ELSE MinOf(S)
TFeatDeact(it) == \E b \in 1..Len(it) : /\ LegalAt(it, b) /\ IsPen(it[b]) /\ it[b][2] > 0
                     /\ LET b2 == NextLegal(it, b) IN
                          b2 # 0 /\ SumF(it, 2, b + 1, b2 - 1) + PenW(it, b2) - SumF(it, 4, b + 1, b2 - 1) < it[b][2]
TFeatEmptyGlue(it) == \E a \in 1..Len(it) : LegalAt(it, a) /\ LET b == NextLegal(it, a) IN
                         b # 0 /\ After(it, a) > b
                         /\ \E i \in b..(After(it, a) - 1) : IsGlue(it[i]) /\ <<it[i][2], it[i][3], it[i][4]>> # <<0, 0, 0>>

\* ---- the judgement of one event ---------------------------------------------------------------------------
Fails(e) ==
  LET it == e.items  n == Len(it)  s == Brk1(e)  k == Len(s)
      struct == (IF k < 1 THEN {"empty"} ELSE {})
                \cup (IF \E j \in 1..k-1 : s[j] >= s[j+1] THEN {"not-increasing"} ELSE {})
                \cup (IF \E j \in 1..k : s[j] < 1 \/ s[j] > n \/ ~LegalAt(it, s[j]) THEN {"illegal-break"} ELSE {})
                \cup (IF \E f \in Forced(it) : \A j \in 1..k : s[j] # f THEN {"forced-missing"} ELSE {})
                \cup (IF k >= 1 /\ s[k] # n THEN {"not-ending-at-final"} ELSE {})
  IN IF struct # {} THEN struct
     ELSE LET lr == [j \in 1..k |-> LineOK(e, s, j)]
              surelyBad == \E j \in 1..k : lr[j].cls = "I"
              g == Greedy(it, e.width, e.h, 0)
          IN {"width-mismatch" : j \in {j \in 1..k : ~lr[j].w}}
             \cup {"ratio-mismatch" : j \in {j \in 1..k : ~lr[j].r}}
             \cup (IF g /\ surelyBad THEN {"infeasible-result"} ELSE {})
             \cup (IF g /\ ~e.ok THEN {"overflow-reported-feasible"} ELSE {})
Explain(e) ==
  LET it == e.items  s == Brk1(e)  k == Len(s)
      F == Fails(e)
      structural == F \cap {"empty", "not-increasing", "illegal-break", "forced-missing", "not-ending-at-final"} # {}
  IN [k |-> l, fails |-> F,
      feat |-> (IF TFeatDeact(it) THEN {"deact"} ELSE {}) \cup (IF TFeatEmptyGlue(it) THEN {"emptyglue"} ELSE {}),
      lines |-> IF structural THEN <<>> ELSE [j \in 1..k |-> LET r == LineOK(e, s, j) IN [a |-> StartOf(s, j) - 1, b |-> s[j] - 1, L |-> r.L, lo |-> r.lo, hi |-> r.hi, cls |-> r.cls, wok |-> r.w, rok |-> r.r, e |-> r.e]],
      greedy |-> IF structural THEN FALSE ELSE Greedy(it, e.width, e.h, 0)]

Is(ops) == l <= Len(Trace) /\ Ev.op \in ops /\ l' = l + 1
TLB == /\ Is({"LB"})
       /\ items' = Ev.items /\ width' = Ev.width /\ ph' = 1 /\ lt' = <<>>
       /\ IF CheckObs THEN Fails(Ev) = {}
          ELSE (Fails(Ev) # {} => PrintT("@@" \o ToJson(Explain(Ev))))
TInit == items = <<>> /\ width = 0 /\ ph = 1 /\ lt = <<>> /\ l = 1
TNext == TLB
TSpec == TInit /\ [][TNext]_tvars
TraceAccepted == TLCGet("stats").diameter - 1 = Len(Trace)
=============================================================================
