------------------------------ MODULE GState ------------------------------
(* C12: SVG, PDF and PostScript output encode the drawing the rasterizer renders.                  *)
(*                                                                                                  *)
(* A drawing program is a sequence of styled draws of lattice paths under integer view matrices.    *)
(* The module holds                                                                                 *)
(*   - the tables of the scenario space (shapes, views, paints, joins, dashes),                      *)
(*   - the paints a program REQUESTS (ExpPaints: geometry under the draw matrix, colour, alpha,     *)
(*     pen, cap, join, miter limit, dash pattern in canvas units, fill rule),                       *)
(*   - the REFERENCE SEMANTICS of the three output languages as interpreters (one action per        *)
(*     operator class) that turn an operator/element trace into performed paints,                   *)
(*   - the property: Conform == every performed paint equals the next requested paint, no unknown   *)
(*     operator, balanced save/restore, nothing missing at the end,                                 *)
(*   - a reference emitter (RefTrace) so that the model itself is checked (MC),                     *)
(*   - the scenario generator (Gen).                                                                *)
(* Trace_GState.tla feeds the interpreters with the lexed bytes of the real back-ends.              *)
EXTENDS Lattice, Mat, TLC, Json, Randomization

CONSTANTS CW, CH,     \* canvas size in mm
          Mode,       \* generator: "sub2" (all programs of length <= 2 over SubStyles) | "rand"
          PLen,       \* program length for "rand"
          Num,        \* number of random programs
          Profile     \* "c12" | "c14": which part of the style space is used

\* ---------------------------------------------------------------------------------------------
\* tables
\* ---------------------------------------------------------------------------------------------
\* a sub-path: points p, closed flag c, and per point arc[i] = <<r, large, sweep>>: r = 0 a line to p[i], r > 0 a circular arc of
\* radius r from p[i-1] to p[i] (SVG flags; sweep = 1 counter-clockwise with the y axis up)
SubA(pts, closed, arcs) == [p |-> pts, c |-> closed, arc |-> arcs]
Sub(pts, closed) == SubA(pts, closed, [i \in 1..Len(pts) |-> <<0,0,0>>])
ISub(pts, closed) == [p |-> pts, c |-> closed]                       \* sub-paths of the interpreters (lines only)
Shapes == <<
  << Sub(<<<<0,0>>,<<4,0>>,<<4,3>>>>, TRUE) >>,                                   \* 1 triangle 3-4-5
  << Sub(<<<<0,0>>,<<3,0>>,<<3,2>>,<<0,2>>>>, TRUE) >>,                           \* 2 rectangle
  << Sub(<<<<0,0>>,<<4,0>>,<<4,1>>,<<1,1>>,<<1,3>>,<<0,3>>>>, TRUE) >>,           \* 3 L-shape
  << Sub(<<<<0,0>>,<<3,0>>,<<3,4>>>>, FALSE) >>,                                  \* 4 open hook
  << Sub(<<<<0,0>>,<<4,0>>,<<4,4>>,<<0,4>>>>, TRUE),
     Sub(<<<<1,1>>,<<3,1>>,<<3,3>>,<<1,3>>>>, TRUE) >>,                           \* 5 nested, same orientation (winding 2)
  << Sub(<<<<0,0>>,<<4,0>>,<<4,1>>>>, TRUE) >>,                                   \* 6 sliver (miter ratio 8.2 at the origin)
  << Sub(<<<<0,0>>,<<4,0>>,<<4,4>>,<<0,4>>>>, TRUE),
     Sub(<<<<1,1>>,<<1,3>>,<<3,3>>,<<3,1>>>>, TRUE) >>,                           \* 7 nested, opposite orientation (hole)
  << Sub(<<<<0,0>>,<<0,3>>,<<3,3>>,<<3,0>>>>, TRUE) >>,                           \* 8 clockwise square (winding -1)
  << Sub(<<<<0,0>>,<<4,4>>,<<4,0>>,<<0,4>>>>, TRUE) >>,                           \* 9 bow-tie (windings -1 and +1)
  << Sub(<<<<0,0>>,<<4,0>>,<<4,4>>,<<0,4>>>>, TRUE),
     Sub(<<<<2,1>>,<<2,3>>,<<4,3>>,<<4,1>>>>, TRUE) >>,                           \* 10 hole touching the outer edge
  << Sub(<<<<0,0>>,<<2,0>>,<<2,3>>>>, FALSE),
     Sub(<<<<3,1>>,<<4,1>>,<<4,4>>,<<3,4>>>>, TRUE) >>,                           \* 11 two sub-paths, the FIRST one left open (filled as implicitly closed)
  << SubA(<<<<0,0>>,<<2,0>>,<<2,2>>,<<0,2>>>>, TRUE, <<<<0,0,0>>,<<0,0,0>>,<<1,0,1>>,<<0,0,0>>>>) >>,            \* 12 D-shape: half circle, centre (2,1)
  << SubA(<<<<0,0>>,<<2,0>>,<<3,1>>,<<2,2>>,<<0,2>>>>, TRUE, <<<<0,0,0>>,<<0,0,0>>,<<1,0,1>>,<<0,0,0>>,<<0,0,0>>>>) >>  \* 13 quarter circle, then a line back to the x of the arc's start
>>
\* rotated ellipses (raster scenes only; draw.shape = 20 + index): centre c, radii a (along the rotated x axis) and b, rotation
\* (cr, sr) / den = (cos, sin): a Pythagorean angle atan(3/4), a quarter turn, and atan(4/3). Drawn as two ArcTo commands with that
\* x-axis rotation, counter-clockwise.
Ells == << [c |-> <<4,3>>, a |-> 3, b |-> 1, cr |-> 4, sr |-> 3, den |-> 5],
           [c |-> <<3,3>>, a |-> 2, b |-> 1, cr |-> 0, sr |-> 1, den |-> 1],
           [c |-> <<3,3>>, a |-> 3, b |-> 2, cr |-> 3, sr |-> 4, den |-> 5] >>
IsEll(d) == d.shape > 20
HasArc(sh) == \E j \in 1..Len(sh) : \E i \in 1..Len(sh[j].p) : sh[j].arc[i][1] > 0
NShapes == Len(Shapes)

Views == <<
  MId,                         \* 1
  MTr(2,1),                    \* 2
  MSc(2,2),                    \* 3
  <<0,-1,5,1,0,0>>,            \* 4 rotation by 90 degrees, moved back into the page
  <<-1,0,5,0,1,0>>,            \* 5 reflection x -> 5 - x
  MSh(1,0),                    \* 6 shear (not a similarity)
  MSc(2,1),                    \* 7 anisotropic scale (not a similarity)
  <<0,-2,9,2,0,0>>,            \* 8 rotation by 90 degrees and scale 2
  <<2,-1,3,2,1,0>>             \* 9 rotation by 45 degrees after scale (2 sqrt 2, sqrt 2): rows of equal length but NOT orthogonal (columns are): not a similarity
>>
NViews == Len(Views)

CSV(cs) == CASE cs = 0 -> MId
             [] cs = 1 -> MRefXAbout2(CW)
             [] cs = 2 -> MMul(MRefXAbout2(CW), MRefYAbout2(CH))
             [] cs = 3 -> MRefYAbout2(CH)

\* paints: non-premultiplied colour + alpha (0..255) as the output formats carry them; pm = premultiplied RGBA bytes (canvas)
PaintTab == [ black  |-> [rgb |-> <<0,0,0>>,     a |-> 255, pm |-> <<0,0,0,255>>],
              red    |-> [rgb |-> <<255,0,0>>,   a |-> 255, pm |-> <<255,0,0,255>>],
              redh   |-> [rgb |-> <<255,0,0>>,   a |-> 128, pm |-> <<128,0,0,128>>],
              dred   |-> [rgb |-> <<128,0,0>>,   a |-> 255, pm |-> <<128,0,0,255>>],
              blue   |-> [rgb |-> <<0,0,255>>,   a |-> 255, pm |-> <<0,0,255,255>>],
              blueh  |-> [rgb |-> <<0,0,255>>,   a |-> 128, pm |-> <<0,0,128,128>>],
              green  |-> [rgb |-> <<0,255,0>>,   a |-> 255, pm |-> <<0,255,0,255>>],
              grey   |-> [rgb |-> <<128,128,128>>, a |-> 255, pm |-> <<128,128,128,255>>],
              \* a linear gradient whose stops all have this colour (exact expectation; exercises the gradient branch of the rasterizer)
              ggrey  |-> [rgb |-> <<128,128,128>>, a |-> 255, pm |-> <<128,128,128,255>>],
              \* a translucent paint whose channels differ from each other and from alpha (raster scenes only; rgb is the rounded un-premultiplied value)
              tbrown |-> [rgb |-> <<201,100,60>>, a |-> 127, pm |-> <<100,50,30,127>>],
              \* a radial gradient (concentric circles around the page centre) whose stops all have this colour
              rgrey  |-> [rgb |-> <<128,128,128>>, a |-> 255, pm |-> <<128,128,128,255>>] ]
PaintNames == <<"black","red","redh","dred","blue","blueh","green","grey","ggrey","tbrown","rgrey">>
Grads == {"ggrey", "rgrey"}
RadialGrads == {"rgrey"}
\* joins: 0 miter limit 4 | 1 miter limit 10 | 2 bevel | 3 round | 4 miter-clip limit 4 | 5 arcs limit 4
JoinKind(j) == CASE j \in {0,1} -> "miter" [] j = 2 -> "bevel" [] j = 3 -> "round" [] j = 4 -> "miterclip" [] j = 5 -> "arcs"
JoinLimit(j) == IF j = 1 THEN 10 ELSE 4
DashArr(d) == CASE d = 0 -> <<>> [] d = 1 -> <<2,1>> [] d = 2 -> <<1>>
ImgW == 2
ImgH == 3

Header == [hdr |-> TRUE, W |-> CW, H |-> CH, shapes |-> Shapes, views |-> Views, paints |-> PaintTab,
           grads |-> Grads, rgrads |-> RadialGrads, ells |-> Ells, dashes |-> <<DashArr(0), DashArr(1), DashArr(2)>>, joinlimit |-> <<4,10,4,4,4,4>>, imgw |-> ImgW, imgh |-> ImgH]

\* ---------------------------------------------------------------------------------------------
\* draws and programs
\* ---------------------------------------------------------------------------------------------
\* C12: the style part and the geometry part are sampled separately (their product has > 10^6 elements, TLC's limit for enumerated sets)
StyleSetC12 == [fill: {"none","black","red","redh","dred"}, stroke: {"none","blue","blueh","red"},
                width: {1,2}, cap: 0..2, join: 0..5, dash: 0..2, off: {-1,0,1}, rule: {0,1}, img: {0,1}]
C12Shapes == {1,2,3,4,5,6,12,13}
C12Views == {1,2,3,4,5,6,7,9}
GeomC12(arcs) == [shape: IF arcs THEN C12Shapes ELSE {1,2,3,4,5,6}, view: C12Views]
Mk(st, g) == [shape |-> g.shape, view |-> g.view, cs |-> 0, fill |-> st.fill, stroke |-> st.stroke, width |-> st.width, cap |-> st.cap,
              join |-> st.join, dash |-> st.dash, off |-> st.off, rule |-> st.rule, img |-> st.img, z |-> 0]
RawDraws == [shape: IF Mode = "rande" THEN (1..11) \cup {21, 22, 23} ELSE 1..11,      \* "rande": with the rotated ellipses (small integer resolutions)
             view: {1,2,3,4,5,6,8}, cs: 0..3, fill: {"none","red","green","grey","black","ggrey","tbrown","rgrey"}, stroke: IF Mode = "randd" THEN {"blue"} ELSE {"none","none","blue"},
             \* "randd": dashed strokes (their region is free in the frame; what they add is the law that a render leaves the
             \* canvas -- its dash arrays included -- as it found it: the second render and the re-recorded canvas are compared)
             width: {1,2}, cap: {0}, join: {2,3}, dash: IF Mode = "randd" THEN {1, 2} ELSE {0}, off: IF Mode = "randd" THEN {0, 1} ELSE {0}, rule: 0..3, img: {0},
             z: {0, 0, -1, 3}]                \* C14 scenes; z = canvas z-index set before the draw (sparse and negative values)
\* a draw without fill and stroke records nothing (Context.DrawPath returns): repaired to a black fill
\* (a dash offset without a dash array is kept out of the bulk programs: the pdf back-end does not terminate on a negative one --
\*  the programs of Mode "solidoff" exercise exactly that, in a child process)
Fix(d00) == LET d0 == IF d00.shape > 20 THEN [d00 EXCEPT !.stroke = "none"] ELSE d00          \* ellipses are only filled
               d == IF d0.dash = 0 THEN [d0 EXCEPT !.off = 0] ELSE d0 IN
           IF d.fill = "none" /\ d.stroke = "none" THEN [d EXCEPT !.fill = "black"] ELSE d
SolidOff == [shape: {1}, view: {1, 3}, cs: {0}, fill: {"none", "red"}, stroke: {"blue"}, width: {2}, cap: {0}, join: {0, 4}, dash: {0}, off: {-1, 1}, rule: {0}, img: {0}, z: {0}]
\* (fill and stroke share the colours red and blue: a back-end with ONE current colour (PostScript) must re-emit it after grestore)
SubStyles == { Fix(d) : d \in [shape: {1}, view: {1}, cs: {0}, fill: {"none","red","redh"}, stroke: {"none","blue","blueh","red"},
                               width: {1}, cap: {0}, join: {0,3}, dash: {0,1}, off: {0}, rule: {0,1}, img: {0}, z: {0}] }
SubStylesBig == { Fix(d) : d \in [shape: {1,4}, view: {1,3}, cs: {0}, fill: {"none","red","redh","dred"}, stroke: {"none","blue","blueh"},
                               width: {1}, cap: {0}, join: {0,2}, dash: {0,1}, off: {0}, rule: {0,1}, img: {0,1}, z: {0}] }

SubStylesMid == { Fix(d) : d \in [shape: {1}, view: {1,3}, cs: {0}, fill: {"none","red","redh","dred"}, stroke: {"none","blue","blueh"},
                               width: {1}, cap: {0}, join: {0}, dash: {0,1}, off: {0}, rule: {0,1}, img: {0,1}, z: {0}] }

HasFill(d) == d.fill # "none"
HasStroke(d) == d.stroke # "none"
DrawM(d) == MMul(CSV(d.cs), Views[d.view])
Lin(m) == <<m[1], m[2], m[4], m[5]>>
SimL(q) == q[1]*q[1] + q[2]*q[2] = q[3]*q[3] + q[4]*q[4] /\ q[1]*q[3] + q[2]*q[4] = 0
DetL(q) == q[1]*q[4] - q[2]*q[3]
\* integer square root of |det| (exact when SimL(q) and the scale is an integer); small determinants without bisection
ScaleL(q) == LET d == Abs(DetL(q)) IN IF d <= 400 THEN CHOOSE s \in 0..20 : s*s <= d /\ (s+1)*(s+1) > d ELSE ISqrtLo(d)
IntSim(q) == SimL(q) /\ ScaleL(q) * ScaleL(q) = Abs(DetL(q)) /\ DetL(q) # 0
\* the pen of a stroke: a circle of diameter w in user space seen through the linear map q; w^2 * q q^T (symmetric 2x2)
PenForm(w, q) == << w*w*(q[1]*q[1] + q[2]*q[2]), w*w*(q[1]*q[3] + q[2]*q[4]), w*w*(q[3]*q[3] + q[4]*q[4]) >>

XformSub(m, s) == [p |-> [i \in 1..Len(s.p) |-> MDot(m, s.p[i])], c |-> s.c]
Xform(m, sh) == [j \in 1..Len(sh) |-> XformSub(m, sh[j])]

\* ---- dash patterns: canonical form (doubled when odd, repeated halves removed, phase modulo the period) --------
RECURSIVE SumSeq(_)
SumSeq(s) == IF s = <<>> THEN 0 ELSE Head(s) + SumSeq(Tail(s))
Dbl(d) == IF Len(d) % 2 = 1 THEN d \o d ELSE d
RECURSIVE Halve(_)
Halve(d) == IF Len(d) >= 4 /\ Len(d) % 4 = 0 /\ SubSeq(d, 1, Len(d) \div 2) = SubSeq(d, Len(d) \div 2 + 1, Len(d))
            THEN Halve(SubSeq(d, 1, Len(d) \div 2)) ELSE d
ScaleSeq(d, f) == [i \in 1..Len(d) |-> d[i] * f]
DashN(d, ph) == IF d = <<>> THEN [d |-> <<>>, ph |-> 0]
                ELSE LET c == Halve(Dbl(d)) per == SumSeq(c) IN
                     IF per <= 0 \/ \E i \in 1..Len(c) : c[i] < 0 THEN [d |-> <<-1>>, ph |-> 0]     \* not a valid pattern
                     ELSE [d |-> c, ph |-> ph % per]

\* ---- corners and joins: two join settings are the same drawing iff they agree at every corner of the shape -------
Corners(sh) == UNION { LET s == sh[j] n == Len(s.p) IN
                       IF s.c THEN { <<s.p[((i + n - 2) % n) + 1], s.p[i], s.p[(i % n) + 1]>> : i \in 1..n }
                       ELSE { <<s.p[i-1], s.p[i], s.p[i+1]>> : i \in 2..(n-1) } : j \in 1..Len(sh) }
\* miter ratio 1/sin(theta/2) <= L at corner c = <<prev, vertex, next>> ; ratio^2 = 2/(1 - cos theta)
RatioLe(c, L0) == LET L == MinI(L0, 30)
                      u == <<c[1][1] - c[2][1], c[1][2] - c[2][2]>> v == <<c[3][1] - c[2][1], c[3][2] - c[2][2]>>
                      dot == u[1]*v[1] + u[2]*v[2] uu == u[1]*u[1] + u[2]*u[2] vv == v[1]*v[1] + v[2]*v[2]
                      k == L*L - 2
                  IN IF k >= 0 THEN (dot <= 0 \/ L*L*L*L*dot*dot <= k*k*uu*vv)
                     ELSE (dot < 0 /\ L*L*L*L*dot*dot >= k*k*uu*vv)
EffJoin(c, jk, ml) == IF jk \in {"miter", "arcs"} THEN (IF RatioLe(c, ml) THEN <<jk, 0>> ELSE <<"bevel", 0>>)
                      ELSE IF jk = "miterclip" THEN <<jk, ml>> ELSE <<jk, 0>>
JoinEq(shape, jk1, ml1, jk2, ml2) == \A c \in Corners(Shapes[shape]) : EffJoin(c, jk1, ml1) = EffJoin(c, jk2, ml2)
CapMatters(shape, dashed) == dashed \/ \E j \in 1..Len(Shapes[shape]) : ~Shapes[shape][j].c

\* ---- does the fill rule matter for the shape?  (exact: some interior sample has a winding number on which the rules differ)
SS == 6
ShapeSamples == {<<SS*i + 1, SS*j + 2>> : i \in -1..4, j \in -1..4} \cup {<<SS*i + 4, SS*j + 5>> : i \in -1..4, j \in -1..4}
Closed6(sh) == [j \in 1..Len(sh) |-> ScaleC(SS, sh[j].p)]
RuleMattersTab == [s \in 1..NShapes |-> \E q \in ShapeSamples : ~OnPath(Closed6(Shapes[s]), q) /\
                       LET w == Wind(Closed6(Shapes[s]), q) IN Fills(0, w) # Fills(1, w)]
RuleSame(s, r1, r2) == r1 = r2 \/ \A q \in ShapeSamples : OnPath(Closed6(Shapes[s]), q) \/
                       LET w == Wind(Closed6(Shapes[s]), q) IN Fills(r1, w) = Fills(r2, w)

\* ---------------------------------------------------------------------------------------------
\* requested paints
\* ---------------------------------------------------------------------------------------------
NoGeom == <<>>
EPaint(kind, j, d) ==
  LET m == DrawM(d) q == Lin(m) dashed == DashArr(d.dash) # <<>>
      pn == IF kind = "fill" THEN d.fill ELSE IF kind = "stroke" THEN d.stroke ELSE "black"
      sc == ScaleL(q)
      dl == ScaleSeq(DashArr(d.dash), d.width)            \* canvas scales dashes by the stroke width (rasterizer.go, ScaleDash)
      dn == DashN(ScaleSeq(dl, sc), d.off * d.width * sc)
  IN [kind |-> kind, draw |-> j, shape |-> d.shape, curved |-> HasArc(Shapes[d.shape]),
      geom |-> IF kind = "image" THEN NoGeom ELSE Xform(m, Shapes[d.shape]),
      rule |-> d.rule, col |-> PaintTab[pn].rgb, a |-> IF kind = "image" THEN 255 ELSE PaintTab[pn].a,
      pen |-> PenForm(d.width, q), lin |-> q, sim |-> IntSim(q),
      cap |-> d.cap, capm |-> CapMatters(d.shape, dashed), jk |-> JoinKind(d.join), ml |-> JoinLimit(d.join),
      dashed |-> dashed, dash |-> dn.d, ph |-> dn.ph, dashL |-> dl, phL |-> d.off * d.width,
      F |-> IF kind = "image" THEN MMul(m, MSc(ImgW, ImgH)) ELSE MId]
ExpPaints(d, j) == (IF d.img = 1 THEN <<EPaint("image", j, d)>> ELSE <<>>)
                   \o (IF HasFill(d) THEN <<EPaint("fill", j, d)>> ELSE <<>>)
                   \o (IF HasStroke(d) THEN <<EPaint("stroke", j, d)>> ELSE <<>>)
RECURSIVE ExpQueue_(_, _)
ExpQueue_(pr, j) == IF j > Len(pr) THEN <<>> ELSE ExpPaints(pr[j], j) \o ExpQueue_(pr, j + 1)
ExpQueue(pr) == ExpQueue_(pr, 1)

\* ---------------------------------------------------------------------------------------------
\* interpreter state
\* ---------------------------------------------------------------------------------------------
VARIABLES be,      \* language being interpreted: "pdf" | "ps" | "svg" ; "" before the first BEGIN
          pid,     \* program id
          prog,    \* draws requested so far
          queue,   \* requested paints
          k,       \* paints performed so far
          gs,      \* graphics state
          stk,     \* q/Q, gsave/grestore stack
          path,    \* current path: [subs, og]
          painted, \* paints performed by the last event
          bad,     \* "" or the reason the last event is unacceptable (other than a paint comparison)
          ext,     \* PDF: ExtGState dictionary of the page; PS: names defined by the prolog
          l        \* index of the next event
ivars == <<be, pid, prog, queue, k, gs, stk, path, painted, bad, ext>>
vars == <<be, pid, prog, queue, k, gs, stk, path, painted, bad, ext, l>>

GS0 == [fc |-> <<0,0,0>>, sc |-> <<0,0,0>>, fa |-> 255, sa |-> 255, w |-> 1, cap |-> 0, join |-> 0, ml |-> 10,
        dash |-> <<>>, ph |-> 0, ctm |-> MId, unit |-> FALSE, clip |-> FALSE]
Path0 == [subs |-> <<>>, og |-> FALSE]
IInit == /\ be = "" /\ pid = 0 /\ prog = <<>> /\ queue = <<>> /\ k = 0 /\ gs = GS0 /\ stk = <<>> /\ path = Path0
         /\ painted = <<>> /\ bad = "" /\ ext = <<>>

Range(s) == {s[i] : i \in 1..Len(s)}
OkArgs(ev, n) == ev.g = 1 /\ Len(ev.a) = n
\* PDF / PS operand order a b c d e f  ->  Mat order <<a, c, e, b, d, f>>
OpMat(a) == <<a[1], a[3], a[5], a[2], a[4], a[6]>>

\* ---- path construction (points are transformed by the CTM when they are added, as in PDF and PostScript) -------
LastSub(p) == p.subs[Len(p.subs)]
AddMove(p, pt) == [p EXCEPT !.subs = Append(p.subs, ISub(<<pt>>, FALSE))]
AddLine(p, pt) == IF p.subs = <<>> THEN [p EXCEPT !.og = TRUE]               \* no current point
                  ELSE IF LastSub(p).c THEN [p EXCEPT !.subs = Append(p.subs, ISub(<<LastSub(p).p[1], pt>>, FALSE))]
                  ELSE [p EXCEPT !.subs[Len(p.subs)].p = Append(@, pt)]
AddClose(p) == IF p.subs = <<>> THEN p ELSE [p EXCEPT !.subs[Len(p.subs)].c = TRUE]
AddCurve(p) == [p EXCEPT !.og = TRUE]

\* ---- performed paints --------------------------------------------------------------------------
FillP(p, rule, col, a, ev) == [kind |-> "fill", subs |-> p.subs, og |-> p.og, rule |-> rule, col |-> col, a |-> a,
                               w |-> 0, lin |-> <<1,0,0,1>>, cap |-> 0, jk |-> "", ml |-> 0, dash |-> <<>>, ph |-> 0, ko |-> FALSE,
                               o |-> IF rule = 1 THEN ev.oe ELSE ev.o, fo |-> IF rule = 1 THEN ev.foe ELSE ev.fo, so |-> <<>>, onz |-> ev.o, ou |-> IF rule = 1 THEN ev.oue ELSE ev.ou, ounz |-> ev.ou, F |-> MId]
StrokePS(p, g, jk, ko, so) == [kind |-> "stroke", subs |-> p.subs, og |-> p.og, rule |-> 0, col |-> g.sc, a |-> g.sa,
                          w |-> g.w, lin |-> Lin(g.ctm), cap |-> g.cap, jk |-> jk, ml |-> g.ml, dash |-> g.dash, ph |-> g.ph, ko |-> ko,
                          o |-> <<>>, fo |-> <<>>, so |-> so, onz |-> <<>>, ou |-> <<>>, ounz |-> <<>>, F |-> MId]
StrokeP(p, g, jk, ko) == StrokePS(p, g, jk, ko, <<>>)
ImageP(F, a) == [kind |-> "image", subs |-> <<>>, og |-> FALSE, rule |-> 0, col |-> <<0,0,0>>, a |-> a, w |-> 0, lin |-> <<1,0,0,1>>,
                 cap |-> 0, jk |-> "", ml |-> 0, dash |-> <<>>, ph |-> 0, ko |-> FALSE, o |-> <<>>, fo |-> <<>>, so |-> <<>>, onz |-> <<>>, ou |-> <<>>, ounz |-> <<>>, F |-> F]

\* ---- comparison of a performed paint with a requested paint ------------------------------------------
RECURSIVE Dedup(_)
Dedup(s) == IF Len(s) <= 1 THEN s ELSE IF s[1] = s[2] THEN Dedup(Tail(s)) ELSE <<s[1]>> \o Dedup(Tail(s))
NormClosed(s) == LET d == Dedup(s) IN IF Len(d) > 1 /\ d[1] = d[Len(d)] THEN SubSeq(d, 1, Len(d) - 1) ELSE d
CycEq(a, b) == Len(a) = Len(b) /\ (Len(a) = 0 \/ \E r \in 0..(Len(a) - 1) : \A i \in 1..Len(a) : a[i] = b[((i - 1 + r) % Len(a)) + 1])
Real(subs) == SelectSeq(subs, LAMBDA s : Len(s.p) >= 2)
SameFillGeom(subs0, geom) == LET subs == Real(subs0) IN
    Len(subs) = Len(geom) /\ \A j \in 1..Len(geom) : CycEq(NormClosed(subs[j].p), NormClosed(geom[j].p))
SameStrokeGeom(subs, geom, dashed) ==
    Len(subs) = Len(geom) /\ \A j \in 1..Len(geom) :
        /\ subs[j].c = geom[j].c
        /\ IF geom[j].c /\ ~dashed THEN CycEq(NormClosed(subs[j].p), NormClosed(geom[j].p))
           ELSE IF geom[j].c THEN NormClosed(subs[j].p) = NormClosed(geom[j].p)
           ELSE Dedup(subs[j].p) = Dedup(geom[j].p)
DashOK(p, e) ==
    IF ~e.dashed THEN DashN(p.dash, p.ph).d = <<>>
    ELSE IF IntSim(p.lin) /\ e.sim THEN DashN(ScaleSeq(p.dash, ScaleL(p.lin)), p.ph * ScaleL(p.lin)) = [d |-> e.dash, ph |-> e.ph]
    ELSE p.lin = e.lin /\ DashN(p.dash, p.ph) = DashN(e.dashL, e.phL)
AlphaBad(lang, p, e) == lang # "ps" /\ p.a # e.a        \* PostScript level 2/3 has no opacity: documented limitation of the back-end
ColOK(p, e) == p.col = e.col
OutlineWhy(lang, p, e) == IF e.draw \notin Range(p.o) THEN "outline-region"
                          ELSE IF ~ColOK(p, e) THEN "colour" ELSE IF AlphaBad(lang, p, e) THEN "alpha" ELSE ""
MatchWhy(lang, p, e) ==
  CASE e.kind = "image" -> IF p.kind # "image" THEN "kind" ELSE IF p.F # e.F THEN "image-matrix"
                           ELSE IF AlphaBad(lang, p, e) THEN "alpha" ELSE ""
    [] e.kind = "fill" /\ e.curved ->                              \* a shape with arcs: the filled REGION is compared (by the harness, at sample points)
                           IF p.kind # "fill" THEN "kind" ELSE IF e.draw \notin Range(p.fo) THEN "geometry-region"
                           ELSE IF ~ColOK(p, e) THEN "colour" ELSE IF AlphaBad(lang, p, e) THEN "alpha" ELSE ""
    [] e.kind = "fill"  -> IF p.kind # "fill" THEN "kind" ELSE IF p.og THEN "geometry-offgrid"
                           ELSE IF ~SameFillGeom(p.subs, e.geom) THEN "geometry"
                           ELSE IF ~RuleSame(e.shape, p.rule, e.rule) THEN "fill-rule"
                           ELSE IF ~ColOK(p, e) THEN "colour" ELSE IF AlphaBad(lang, p, e) THEN "alpha" ELSE ""
    [] e.kind = "stroke" ->
         IF p.kind = "fill" THEN OutlineWhy(lang, p, e)              \* explicit outline instead of a native stroke
         ELSE IF p.kind # "stroke" THEN "kind"
         ELSE IF e.curved /\ e.draw \notin Range(p.so) THEN "geometry-curve"     \* the stroked curve is compared by the harness
         ELSE IF ~e.curved /\ p.og THEN "geometry-offgrid"
         ELSE IF ~e.curved /\ ~SameStrokeGeom(p.subs, e.geom, e.dashed) THEN "geometry"
         ELSE IF ~ColOK(p, e) THEN "colour" ELSE IF AlphaBad(lang, p, e) THEN "alpha"
         ELSE IF p.ko /\ p.a # 255 THEN "knockout"
         ELSE IF PenForm(p.w, p.lin) # e.pen THEN "width"
         ELSE IF e.capm /\ p.cap # e.cap THEN "cap"
         ELSE IF ~JoinEq(e.shape, p.jk, p.ml, e.jk, e.ml) THEN "join"
         ELSE IF ~DashOK(p, e) THEN "dash" ELSE ""

\* first reason why the last event is not conformant ("" = conformant)
PaintWhy(i) == LET qi == k - Len(painted) + i IN
               IF qi > Len(queue) THEN "extra-paint" ELSE MatchWhy(be, painted[i], queue[qi])
RECURSIVE FirstWhy(_)
FirstWhy(i) == IF i > Len(painted) THEN "" ELSE LET w == PaintWhy(i) IN IF w # "" THEN w ELSE FirstWhy(i + 1)
Why == IF bad # "" THEN bad ELSE FirstWhy(1)
\* THE PROPERTY (invariant of the interpreter run)
PaintInv == \A i \in 1..Len(painted) : PaintWhy(i) = ""
Conform == bad = "" /\ PaintInv

\* ---- scenario features at the failing paint (exact predicates over the requests; used in signatures) ---------------
FailIdx == LET i == CHOOSE j \in 1..(Len(painted) + 1) : j > Len(painted) \/ PaintWhy(j) # "" IN k - Len(painted) + i
NativePS(e) == e.kind = "stroke" /\ e.sim /\ e.jk \in {"miter", "bevel", "round"}
Slot(e) == IF e.kind = "image" THEN "I" ELSE IF NativePS(e) THEN "S" ELSE "F"
RECURSIVE PrevInSlot(_, _)
PrevInSlot(i, s) == IF i = 0 THEN 0 ELSE IF Slot(queue[i]) = s THEN i ELSE PrevInSlot(i - 1, s)
PaintAt(j) == IF j = 0 THEN <<<<0,0,0>>, 255>> ELSE <<queue[j].col, queue[j].a>>
RECURSIVE RealAlphaAfter(_)
RealAlphaAfter(j) == IF j = 0 THEN 255 ELSE IF queue[j].kind = "image" THEN RealAlphaAfter(j - 1) ELSE queue[j].a
RECURSIVE PrevNonImage(_)
PrevNonImage(j) == IF j = 0 THEN 0 ELSE IF queue[j].kind # "image" THEN j ELSE PrevNonImage(j - 1)
Premul(e) == [i \in 1..3 |-> (e.col[i] * e.a + 127) \div 255]
Feats(i) ==
  IF i < 1 \/ i > Len(queue) THEN [none |-> TRUE]
  ELSE LET e == queue[i] pj == PrevInSlot(i - 1, Slot(e)) d == prog[e.draw] IN
  [ SameColourDifferentAlpha |-> e.kind # "image" /\ PaintAt(pj) = <<e.col, e.a>> /\ \E j \in (pj + 1)..(i - 1) : queue[j].a # e.a,
    ImageBetweenDraws |-> e.a = 255 /\ RealAlphaAfter(i - 1) # 255 /\ \E j \in 1..(i - 1) : queue[j].kind = "image",
    StaleAlpha |-> RealAlphaAfter(i - 1),
    StrokeOnlyEvenOdd |-> ~HasFill(d) /\ d.rule = 1,
    StrokeEvenOdd |-> HasStroke(d) /\ d.rule = 1,
    NonSimilarityView |-> ~e.sim,
    UnsupportedJoin |-> e.jk \in {"miterclip", "arcs"},
    DashedWidthNotOne |-> e.dashed /\ d.width # 1,
    PremultipliedBytesEqual |-> LET pj2 == PrevNonImage(i - 1) IN pj2 > 0 /\ queue[pj2].col # e.col /\ Premul(queue[pj2]) = e.col,
    PrevColour |-> LET pj2 == PrevNonImage(i - 1) IN IF pj2 > 0 THEN queue[pj2].col ELSE <<0,0,0>>,
    FillStrokeTranslucentSameAlpha |-> HasFill(d) /\ HasStroke(d) /\ PaintTab[d.fill].a = PaintTab[d.stroke].a /\ PaintTab[d.fill].a # 255,
    kind |-> e.kind, draw |-> e.draw ]

\* ---------------------------------------------------------------------------------------------
\* framing events (all languages)
\* ---------------------------------------------------------------------------------------------
Begin(ev) == /\ ev.op = "BEGIN"
             /\ be' = ev.be /\ pid' = ev.id /\ prog' = <<>> /\ queue' = <<>> /\ k' = 0 /\ gs' = GS0 /\ stk' = <<>>
             /\ path' = Path0 /\ painted' = <<>> /\ ext' = ev.ext
             /\ bad' = IF ev.W = CW /\ ev.H = CH THEN "" ELSE "page-size"
Request(ev) == /\ ev.op = "Request" /\ be # ""
               /\ prog' = Append(prog, ev.d) /\ queue' = queue \o ExpPaints(ev.d, Len(prog) + 1)
               /\ painted' = <<>> /\ bad' = IF k = 0 THEN "" ELSE "request-after-paint"
               /\ UNCHANGED <<be, pid, k, gs, stk, path, ext>>
End(ev) == /\ ev.op = "END" /\ be # ""
           /\ bad' = IF k < Len(queue) THEN "paints-missing" ELSE IF stk # <<>> THEN "unbalanced-save" ELSE ""
           /\ painted' = <<>> /\ UNCHANGED <<be, pid, prog, queue, k, gs, stk, path, ext>>

\* ---------------------------------------------------------------------------------------------
\* PDF content stream (ISO 32000-1, 8.4 graphics state, 8.5 paths, 11.6.4.4 constant alpha through ExtGState)
\* ---------------------------------------------------------------------------------------------
PdfStateOps == {"g", "G", "rg", "RG", "gs", "w", "J", "j", "M", "d", "i", "ri"}
PdfPathOps  == {"m", "l", "c", "v", "y", "h", "re"}
PdfPaintOps == {"f", "F", "f*", "S", "s", "B", "B*", "b", "b*", "n"}
RGB(ev) == IF OkArgs(ev, 3) THEN ev.a ELSE <<-1,-1,-1>>
Gray(ev) == IF OkArgs(ev, 1) THEN <<ev.a[1], ev.a[1], ev.a[1]>> ELSE <<-1,-1,-1>>
ExtLookup(n) == SelectSeq(ext, LAMBDA x : x.n = n)
R(g, b) == [gs |-> g, bad |-> b]
PdfSet(g, ev) ==
  CASE ev.op = "rg" -> R([g EXCEPT !.fc = RGB(ev)], "")
    [] ev.op = "RG" -> R([g EXCEPT !.sc = RGB(ev)], "")
    [] ev.op = "g"  -> R([g EXCEPT !.fc = Gray(ev)], "")
    [] ev.op = "G"  -> R([g EXCEPT !.sc = Gray(ev)], "")
    [] ev.op = "gs" -> LET x == ExtLookup(ev.s) IN
                       IF x = <<>> THEN R(g, "undefined-extgstate") ELSE R([g EXCEPT !.fa = x[1].ca, !.sa = x[1].CA], "")
    [] ev.op = "w"  -> IF OkArgs(ev, 1) /\ ev.a[1] >= 0 THEN R([g EXCEPT !.w = ev.a[1]], "") ELSE R([g EXCEPT !.w = -1], "")
    [] ev.op = "J"  -> IF OkArgs(ev, 1) /\ ev.a[1] \in 0..2 THEN R([g EXCEPT !.cap = ev.a[1]], "") ELSE R(g, "operand:J")
    [] ev.op = "j"  -> IF OkArgs(ev, 1) /\ ev.a[1] \in 0..2 THEN R([g EXCEPT !.join = ev.a[1]], "") ELSE R(g, "operand:j")
    [] ev.op = "M"  -> IF OkArgs(ev, 1) /\ ev.a[1] >= 1 THEN R([g EXCEPT !.ml = ev.a[1]], "") ELSE R([g EXCEPT !.ml = -1], "")
    [] ev.op = "d"  -> IF ev.g = 1 /\ ev.ph >= 0 THEN R([g EXCEPT !.dash = ev.a, !.ph = ev.ph], "") ELSE R([g EXCEPT !.dash = <<-1>>], "")
    [] OTHER -> R(g, "")                                         \* i, ri: no effect on what is compared
PdfState(ev) == /\ be = "pdf" /\ ev.op \in PdfStateOps
                /\ gs' = PdfSet(gs, ev).gs /\ bad' = PdfSet(gs, ev).bad /\ painted' = <<>>
                /\ UNCHANGED <<be, pid, prog, queue, k, stk, path, ext>>
PdfSave(ev) == /\ be = "pdf" /\ ev.op = "q" /\ stk' = Append(stk, gs) /\ painted' = <<>> /\ bad' = ""
               /\ UNCHANGED <<be, pid, prog, queue, k, gs, path, ext>>
PdfRestore(ev) == /\ be = "pdf" /\ ev.op = "Q" /\ painted' = <<>>
                  /\ IF stk = <<>> THEN bad' = "restore-underflow" /\ UNCHANGED <<gs, stk>>
                     ELSE bad' = "" /\ gs' = stk[Len(stk)] /\ stk' = SubSeq(stk, 1, Len(stk) - 1)
                  /\ UNCHANGED <<be, pid, prog, queue, k, path, ext>>
\* cm: the operand matrix is applied before the old CTM. ev.u = 1: the operand is the unit conversion 72/25.4 (points per mm)
PdfConcat(ev) == /\ be = "pdf" /\ ev.op = "cm" /\ painted' = <<>>
                 /\ IF ev.u = 1 THEN (IF gs.unit \/ gs.ctm # MId THEN bad' = "unit-twice" /\ UNCHANGED gs ELSE bad' = "" /\ gs' = [gs EXCEPT !.unit = TRUE])
                    ELSE IF OkArgs(ev, 6) THEN bad' = "" /\ gs' = [gs EXCEPT !.ctm = MMul(gs.ctm, OpMat(ev.a))]
                    ELSE bad' = "operand:cm" /\ UNCHANGED gs
                 /\ UNCHANGED <<be, pid, prog, queue, k, stk, path, ext>>
PdfPathStep(p, g, ev) ==
  CASE ev.op = "m"  -> IF OkArgs(ev, 2) THEN AddMove(p, MDot(g.ctm, ev.a)) ELSE AddCurve(AddMove(p, <<0,0>>))
    [] ev.op = "l"  -> IF OkArgs(ev, 2) THEN AddLine(p, MDot(g.ctm, ev.a)) ELSE AddCurve(p)
    [] ev.op = "h"  -> AddClose(p)
    [] ev.op = "re" -> IF OkArgs(ev, 4) THEN
                          LET x == ev.a[1] y == ev.a[2] w == ev.a[3] h == ev.a[4] IN
                          AddClose(AddLine(AddLine(AddLine(AddMove(p, MDot(g.ctm, <<x, y>>)), MDot(g.ctm, <<x + w, y>>)),
                                                   MDot(g.ctm, <<x + w, y + h>>)), MDot(g.ctm, <<x, y + h>>)))
                       ELSE AddCurve(p)
    [] OTHER -> AddCurve(p)                                       \* c, v, y: curved
PdfPath(ev) == /\ be = "pdf" /\ ev.op \in PdfPathOps
               /\ path' = PdfPathStep(path, gs, ev) /\ painted' = <<>> /\ bad' = ""
               /\ UNCHANGED <<be, pid, prog, queue, k, gs, stk, ext>>
PdfClipOp(ev) == /\ be = "pdf" /\ ev.op \in {"W", "W*"} /\ gs' = [gs EXCEPT !.clip = TRUE] /\ painted' = <<>> /\ bad' = ""
                 /\ UNCHANGED <<be, pid, prog, queue, k, stk, path, ext>>
PdfJoinKind(g) == CASE g.join = 0 -> "miter" [] g.join = 1 -> "round" [] g.join = 2 -> "bevel"
PdfPaints(p, g, ev) ==
  LET pc == AddClose(p)
      fl(r) == FillP(p, r, g.fc, g.fa, ev)
      st(q, ko) == StrokePS(q, g, PdfJoinKind(g), ko, ev.so)
  IN CASE ev.op \in {"f", "F"} -> <<fl(0)>>
       [] ev.op = "f*" -> <<fl(1)>>
       [] ev.op = "S"  -> <<st(p, FALSE)>>
       [] ev.op = "s"  -> <<st(pc, FALSE)>>
       [] ev.op = "B"  -> <<fl(0), st(p, TRUE)>>          \* 11.7.4.4: fill and stroke form a knockout group
       [] ev.op = "B*" -> <<fl(1), st(p, TRUE)>>
       [] ev.op = "b"  -> <<FillP(pc, 0, g.fc, g.fa, ev), st(pc, TRUE)>>
       [] ev.op = "b*" -> <<FillP(pc, 1, g.fc, g.fa, ev), st(pc, TRUE)>>
       [] ev.op = "n"  -> <<>>
PdfPaint(ev) == /\ be = "pdf" /\ ev.op \in PdfPaintOps
                /\ painted' = PdfPaints(path, gs, ev) /\ k' = k + Len(painted') /\ path' = Path0
                /\ bad' = IF ev.op = "n" THEN ""
                          ELSE IF ~gs.unit THEN "unit-missing"
                          ELSE IF gs.clip THEN "paint-under-clip" ELSE ""
                /\ UNCHANGED <<be, pid, prog, queue, gs, stk, ext>>
PdfDo(ev) == /\ be = "pdf" /\ ev.op = "Do"
             /\ painted' = <<ImageP(gs.ctm, gs.fa)>> /\ k' = k + 1
             /\ bad' = IF gs.unit THEN "" ELSE "unit-missing"
             /\ UNCHANGED <<be, pid, prog, queue, gs, stk, path, ext>>

\* ---------------------------------------------------------------------------------------------
\* PostScript (PLRM 3rd ed., 4.4 path construction, 4.5 painting, 8.2 operators); the prolog's procedures are in ext
\* ---------------------------------------------------------------------------------------------
PsStateOps == {"setgray", "setrgbcolor", "setlinewidth", "setlinecap", "setlinejoin", "setmiterlimit", "setdash", "setcolorspace"}
PsPathOps  == {"newpath", "moveto", "lineto", "curveto", "closepath", "arc", "arcn"}
PsPaintOps == {"fill", "eofill", "stroke"}
PsCtmOps   == {"concat", "translate", "scale", "rotate"}
PsSet(g, ev) ==
  CASE ev.op = "setrgbcolor" -> R([g EXCEPT !.fc = RGB(ev), !.sc = RGB(ev)], "")
    [] ev.op = "setgray"     -> R([g EXCEPT !.fc = Gray(ev), !.sc = Gray(ev)], "")
    [] ev.op = "setlinewidth" -> IF OkArgs(ev, 1) /\ ev.a[1] >= 0 THEN R([g EXCEPT !.w = ev.a[1]], "") ELSE R([g EXCEPT !.w = -1], "")
    [] ev.op = "setlinecap"  -> IF OkArgs(ev, 1) /\ ev.a[1] \in 0..2 THEN R([g EXCEPT !.cap = ev.a[1]], "") ELSE R(g, "operand:setlinecap")
    [] ev.op = "setlinejoin" -> IF OkArgs(ev, 1) /\ ev.a[1] \in 0..2 THEN R([g EXCEPT !.join = ev.a[1]], "") ELSE R(g, "operand:setlinejoin")
    [] ev.op = "setmiterlimit" -> IF OkArgs(ev, 1) /\ ev.a[1] >= 1 THEN R([g EXCEPT !.ml = ev.a[1]], "") ELSE R([g EXCEPT !.ml = -1], "")
    [] ev.op = "setdash"     -> IF ev.g = 1 THEN R([g EXCEPT !.dash = ev.a, !.ph = ev.ph], "") ELSE R([g EXCEPT !.dash = <<-1>>], "")
    [] OTHER -> R(g, "")
PsState(ev) == /\ be = "ps" /\ ev.op \in PsStateOps
               /\ gs' = PsSet(gs, ev).gs /\ bad' = PsSet(gs, ev).bad /\ painted' = <<>>
               /\ UNCHANGED <<be, pid, prog, queue, k, stk, path, ext>>
\* gsave saves the graphics state INCLUDING the current path
PsSave(ev) == /\ be = "ps" /\ ev.op = "gsave" /\ stk' = Append(stk, [g |-> gs, p |-> path]) /\ painted' = <<>> /\ bad' = ""
              /\ UNCHANGED <<be, pid, prog, queue, k, gs, path, ext>>
PsRestore(ev) == /\ be = "ps" /\ ev.op = "grestore" /\ painted' = <<>>
                 /\ IF stk = <<>> THEN bad' = "" /\ UNCHANGED <<gs, stk, path>>       \* PLRM: grestore on an empty stack resets to the bottom state
                    ELSE bad' = "" /\ gs' = stk[Len(stk)].g /\ path' = stk[Len(stk)].p /\ stk' = SubSeq(stk, 1, Len(stk) - 1)
                 /\ UNCHANGED <<be, pid, prog, queue, k, ext>>
PsMat(ev) == CASE ev.op = "concat" -> OpMat(ev.a)
               [] ev.op = "translate" -> MTr(ev.a[1], ev.a[2])
               [] ev.op = "scale" -> MSc(ev.a[1], ev.a[2])
               [] ev.op = "rotate" -> MRot90(ev.a[1] \div 90)
PsArity(op) == CASE op = "concat" -> 6 [] op = "rotate" -> 1 [] OTHER -> 2
PsCtm(ev) == /\ be = "ps" /\ ev.op \in PsCtmOps /\ painted' = <<>>
             /\ IF OkArgs(ev, PsArity(ev.op)) /\ (ev.op = "rotate" => ev.a[1] % 90 = 0)
                THEN bad' = "" /\ gs' = [gs EXCEPT !.ctm = MMul(gs.ctm, PsMat(ev))]
                ELSE bad' = "operand:" \o ev.op /\ UNCHANGED gs
             /\ UNCHANGED <<be, pid, prog, queue, k, stk, path, ext>>
PsPathStep(p, g, ev) ==
  CASE ev.op = "newpath" -> Path0
    [] ev.op = "moveto" -> IF OkArgs(ev, 2) THEN AddMove(p, MDot(g.ctm, ev.a)) ELSE AddCurve(AddMove(p, <<0,0>>))
    [] ev.op = "lineto" -> IF OkArgs(ev, 2) THEN AddLine(p, MDot(g.ctm, ev.a)) ELSE AddCurve(p)
    [] ev.op = "closepath" -> AddClose(p)
    [] OTHER -> AddCurve(p)
PsPath(ev) == /\ be = "ps" /\ ev.op \in PsPathOps
              /\ path' = PsPathStep(path, gs, ev) /\ painted' = <<>> /\ bad' = ""
              /\ UNCHANGED <<be, pid, prog, queue, k, gs, stk, ext>>
\* a name defined by the prolog (ellipse, ellipsen): appends a curved piece
PsDef(ev) == /\ be = "ps" /\ ev.op = "def" /\ ext' = Append(ext, ev.s) /\ painted' = <<>> /\ bad' = ""
             /\ UNCHANGED <<be, pid, prog, queue, k, gs, stk, path>>
PsCall(ev) == /\ be = "ps" /\ ev.op \in Range(ext) /\ path' = AddCurve(path) /\ painted' = <<>> /\ bad' = ""
              /\ UNCHANGED <<be, pid, prog, queue, k, gs, stk, ext>>
PsPaint(ev) == /\ be = "ps" /\ ev.op \in PsPaintOps
               /\ painted' = CASE ev.op = "fill" -> <<FillP(path, 0, gs.fc, 255, ev)>>
                               [] ev.op = "eofill" -> <<FillP(path, 1, gs.fc, 255, ev)>>
                               [] ev.op = "stroke" -> <<StrokePS(path, [gs EXCEPT !.sa = 255], PdfJoinKind(gs), FALSE, ev.so)>>
               /\ k' = k + 1 /\ path' = Path0 /\ bad' = IF gs.unit THEN "" ELSE "bounding-box-missing"
               /\ UNCHANGED <<be, pid, prog, queue, gs, stk, ext>>
\* image: a = <<Width, Height, ImageMatrix(6)>>; the unit square of user space is the image when ImageMatrix = [w 0 0 -h 0 h]
PsImage(ev) == /\ be = "ps" /\ ev.op = "image"
               /\ IF ev.g = 1 /\ Len(ev.a) = 8 /\ SubSeq(ev.a, 3, 8) = <<ev.a[1], 0, 0, -ev.a[2], 0, ev.a[2]>>
                  THEN painted' = <<ImageP(gs.ctm, 255)>> /\ k' = k + 1 /\ bad' = ""
                  ELSE painted' = <<>> /\ k' = k /\ bad' = "operand:image"
               /\ UNCHANGED <<be, pid, prog, queue, gs, stk, path, ext>>
\* %%BoundingBox: 0 0 W H  -- the page box in the units of the coordinates (the PS back-end writes millimetre values)
PsBBox(ev) == /\ be = "ps" /\ ev.op = "%%BoundingBox" /\ painted' = <<>>
              /\ IF ev.g = 1 /\ ev.a = <<0, 0, CW, CH>> THEN bad' = "" /\ gs' = [gs EXCEPT !.unit = TRUE] ELSE bad' = "bounding-box" /\ UNCHANGED gs
              /\ UNCHANGED <<be, pid, prog, queue, k, stk, path, ext>>
PsNop(ev) == /\ be = "ps" /\ ev.op \in {"showpage", "%%EOF"} /\ painted' = <<>> /\ bad' = ""
             /\ UNCHANGED <<be, pid, prog, queue, k, gs, stk, path, ext>>

\* ---------------------------------------------------------------------------------------------
\* SVG (SVG 1.1 / 2: painting properties, presentation attributes vs the style attribute, path data, transforms)
\* an element event carries: pr = declared properties [n, src ("attr" | "style"), t ("none" | "color" | "num" | "nums" | "kw"), v, s, g],
\* d = path data commands [c, a, g], tf = transform functions [f, a, g], tm/tmg = the transform list composed numerically by the lexer
\* ---------------------------------------------------------------------------------------------
Prop(n, t, v, s) == [n |-> n, src |-> "default", t |-> t, v |-> v, s |-> s, g |-> 1]
SvgDefault(n) ==
  CASE n = "fill" -> Prop(n, "color", <<0,0,0,255>>, "")
    [] n = "stroke" -> Prop(n, "none", <<>>, "")
    [] n = "stroke-width" -> Prop(n, "num", <<1>>, "")
    [] n = "stroke-linecap" -> Prop(n, "kw", <<>>, "butt")
    [] n = "stroke-linejoin" -> Prop(n, "kw", <<>>, "miter")
    [] n = "stroke-miterlimit" -> Prop(n, "num", <<4>>, "")
    [] n = "stroke-dasharray" -> Prop(n, "none", <<>>, "")
    [] n = "stroke-dashoffset" -> Prop(n, "num", <<0>>, "")
    [] n = "fill-rule" -> Prop(n, "kw", <<>>, "nonzero")
    [] OTHER -> Prop(n, "num", <<255>>, "")              \* opacity, fill-opacity, stroke-opacity (scaled by 255)
\* a declaration in the style attribute overrides a presentation attribute; the last declaration wins
Eff(pr, n) == LET st == SelectSeq(pr, LAMBDA x : x.n = n /\ x.src = "style")
                  at == SelectSeq(pr, LAMBDA x : x.n = n /\ x.src = "attr")
              IN IF st # <<>> THEN st[Len(st)] ELSE IF at # <<>> THEN at[Len(at)] ELSE SvgDefault(n)
\* path data: absolute and relative M L H V Z exactly; every curve command marks the path as curved
SvgPt(cmd, cur) ==
  LET a == cmd.a c == cmd.c IN
  CASE c \in {"M", "L"} -> <<a[1], a[2]>>
    [] c \in {"m", "l"} -> <<cur[1] + a[1], cur[2] + a[2]>>
    [] c = "H" -> <<a[1], cur[2]>> [] c = "h" -> <<cur[1] + a[1], cur[2]>>
    [] c = "V" -> <<cur[1], a[1]>> [] c = "v" -> <<cur[1], cur[2] + a[1]>>
SvgArity(c) == IF c \in {"M","m","L","l"} THEN 2 ELSE 1
RECURSIVE SvgPath_(_, _, _, _)
SvgPath_(d, i, cur, p) ==
  IF i > Len(d) THEN p
  ELSE LET cmd == d[i] IN
       IF cmd.c \in {"Z", "z"} THEN SvgPath_(d, i + 1, IF p.subs = <<>> THEN cur ELSE LastSub(p).p[1], AddClose(p))
       ELSE IF cmd.c \in {"M","m","L","l","H","h","V","v"} THEN
            IF cmd.g = 1 /\ Len(cmd.a) = SvgArity(cmd.c)
            THEN LET pt == SvgPt(cmd, cur) IN SvgPath_(d, i + 1, pt, IF cmd.c \in {"M", "m"} THEN AddMove(p, pt) ELSE AddLine(p, pt))
            ELSE SvgPath_(d, i + 1, cur, AddCurve(IF cmd.c \in {"M","m"} THEN AddMove(p, cur) ELSE p))
       ELSE SvgPath_(d, i + 1, cur, AddCurve(p))
SvgLineCmds == {"M","m","L","l","H","h","V","v","Z","z"}
SvgPath(d) == IF \E i \in 1..Len(d) : d[i].g = 0 \/ d[i].c \notin SvgLineCmds THEN [subs |-> <<>>, og |-> TRUE]   \* curved / off the lattice: only its region is compared
              ELSE SvgPath_(d, 1, <<0,0>>, Path0)
\* transform list; rotate only by multiples of 90 degrees, otherwise the numerically composed matrix of the lexer is used
TfArgsOK(t) == CASE t.f = "matrix" -> Len(t.a) = 6
                 [] t.f = "translate" -> Len(t.a) \in {1, 2}
                 [] t.f = "scale" -> Len(t.a) \in {1, 2}
                 [] t.f = "rotate" -> (Len(t.a) = 1 /\ (t.a[1] % 90) = 0)
                 [] OTHER -> FALSE
TfOK(t) == (t.g = 1) /\ TfArgsOK(t)
TfMat(t) == CASE t.f = "matrix" -> OpMat(t.a)
              [] t.f = "translate" -> MTr(t.a[1], IF Len(t.a) = 2 THEN t.a[2] ELSE 0)
              [] t.f = "scale" -> MSc(t.a[1], IF Len(t.a) = 2 THEN t.a[2] ELSE t.a[1])
              [] t.f = "rotate" -> MRot90((t.a[1] \div 90) % 4)
RECURSIVE TfAll(_, _)
TfAll(tf, i) == IF i > Len(tf) THEN MId ELSE MMul(TfMat(tf[i]), TfAll(tf, i + 1))
SvgT(ev) == IF \A i \in 1..Len(ev.tf) : TfOK(ev.tf[i]) THEN [m |-> TfAll(ev.tf, 1), ok |-> TRUE]
            ELSE IF ev.tmg = 1 THEN [m |-> OpMat(ev.tm), ok |-> TRUE] ELSE [m |-> MId, ok |-> FALSE]
Flip == MRefYAbout2(CH)                                     \* y_canvas = H - y_svg  (viewBox 0 0 W H, user unit = mm)
MapPath(m, p) == [p EXCEPT !.subs = [j \in 1..Len(p.subs) |-> XformSub(m, p.subs[j])]]
Num1(pp) == IF pp.t = "num" /\ pp.g = 1 /\ Len(pp.v) = 1 THEN pp.v[1] ELSE -9999
Alpha(col, op) == IF op = 255 THEN col ELSE IF col = 255 THEN op ELSE -1       \* products of two partial opacities are outside the model
SvgCapNo(s) == CASE s = "butt" -> 0 [] s = "round" -> 1 [] s = "square" -> 2 [] OTHER -> -1
SvgJoinKind(s) == IF s \in {"miter", "round", "bevel", "arcs"} THEN s ELSE IF s = "miter-clip" THEN "miterclip" ELSE "?"
SvgPaints(ev) ==
  LET pr == ev.pr T == SvgT(ev) tot == MMul(Flip, T.m)
      p0 == SvgPath(ev.d) p == [MapPath(tot, p0) EXCEPT !.og = p0.og \/ ~T.ok]
      f == Eff(pr, "fill") s == Eff(pr, "stroke")
      op == Num1(Eff(pr, "opacity"))
      fa == Alpha(IF f.t = "color" /\ f.g = 1 THEN f.v[4] ELSE -1, Alpha(Num1(Eff(pr, "fill-opacity")), op))
      sa == Alpha(IF s.t = "color" /\ s.g = 1 THEN s.v[4] ELSE -1, Alpha(Num1(Eff(pr, "stroke-opacity")), op))
      rule == IF Eff(pr, "fill-rule").s = "evenodd" THEN 1 ELSE 0
      da == Eff(pr, "stroke-dasharray")
      g == [GS0 EXCEPT !.sc = IF s.t = "color" /\ s.g = 1 THEN SubSeq(s.v, 1, 3) ELSE <<-1,-1,-1>>, !.sa = sa,
                       !.w = Num1(Eff(pr, "stroke-width")), !.cap = SvgCapNo(Eff(pr, "stroke-linecap").s),
                       !.ml = Num1(Eff(pr, "stroke-miterlimit")),
                       !.dash = IF da.t = "none" THEN <<>> ELSE IF da.t \in {"nums", "num"} /\ da.g = 1 THEN da.v ELSE <<-1>>,
                       !.ph = Num1(Eff(pr, "stroke-dashoffset")),
                       !.ctm = tot]
  IN (IF f.t = "none" THEN <<>> ELSE <<FillP(p, rule, IF f.t = "color" /\ f.g = 1 THEN SubSeq(f.v, 1, 3) ELSE <<-1,-1,-1>>, fa, ev)>>)
     \o (IF s.t = "none" THEN <<>> ELSE <<StrokePS(p, g, SvgJoinKind(Eff(pr, "stroke-linejoin").s), FALSE, ev.so)>>)
SvgRoot(ev) == /\ be = "svg" /\ ev.op = "svg" /\ painted' = <<>>
               /\ IF ev.g = 1 /\ ev.a = <<CW, CH>> /\ ev.s = "mm" /\ ev.vb = <<0, 0, CW, CH>> THEN bad' = "" /\ gs' = [gs EXCEPT !.unit = TRUE]
                  ELSE bad' = "svg-size-or-viewbox" /\ UNCHANGED gs
               /\ UNCHANGED <<be, pid, prog, queue, k, stk, path, ext>>
SvgPathEl(ev) == /\ be = "svg" /\ ev.op = "path"
                 /\ painted' = SvgPaints(ev) /\ k' = k + Len(painted') /\ bad' = IF gs.unit THEN "" ELSE "unit-missing"
                 /\ UNCHANGED <<be, pid, prog, queue, gs, stk, path, ext>>
\* image: the unit square (v up) -> pixel (w u, h - h v) -> transform -> flip
SvgImageEl(ev) == /\ be = "svg" /\ ev.op = "image"
                  /\ LET T == SvgT(ev) IN
                     IF T.ok /\ OkArgs(ev, 2) THEN painted' = <<ImageP(MMul(MMul(Flip, T.m), <<ev.a[1], 0, 0, 0, -ev.a[2], ev.a[2]>>), Num1(Eff(ev.pr, "opacity")))>> /\ bad' = ""
                     ELSE painted' = <<ImageP(MId, 255)>> /\ bad' = "image-transform-offgrid"
                  /\ k' = k + 1 /\ UNCHANGED <<be, pid, prog, queue, gs, stk, path, ext>>
SvgNop(ev) == /\ be = "svg" /\ ev.op \in {"defs", "style", "/svg"} /\ painted' = <<>> /\ bad' = ""
              /\ UNCHANGED <<be, pid, prog, queue, k, gs, stk, path, ext>>

\* ---------------------------------------------------------------------------------------------
\* anything else is not part of the language: rejected
\* ---------------------------------------------------------------------------------------------
KnownOps(lang) == {"BEGIN", "Request", "END", "EOF"} \cup
  CASE lang = "pdf" -> PdfStateOps \cup PdfPathOps \cup PdfPaintOps \cup {"q", "Q", "cm", "W", "W*", "Do"}
    [] lang = "ps"  -> PsStateOps \cup PsPathOps \cup PsPaintOps \cup PsCtmOps \cup {"gsave", "grestore", "def", "image", "%%BoundingBox", "showpage", "%%EOF"} \cup Range(ext)
    [] lang = "svg" -> {"svg", "path", "image", "defs", "style", "/svg"}
    [] OTHER -> {}
Unknown(ev) == /\ ev.op \notin KnownOps(be) /\ bad' = "unknown-operator:" \o ev.op /\ painted' = <<>>
               /\ UNCHANGED <<be, pid, prog, queue, k, gs, stk, path, ext>>

\* ---------------------------------------------------------------------------------------------
\* reference emitter: what a straightforward correct back-end writes (everything is set before every paint).
\* Used at the model level only: the interpreters and the requested paints must agree with each other.
\* ---------------------------------------------------------------------------------------------
RECURSIVE Cat(_)
Cat(ss) == IF ss = <<>> THEN <<>> ELSE Head(ss) \o Cat(Tail(ss))
E(op, a) == [op |-> op, a |-> a, g |-> 1, s |-> "", o |-> <<>>, oe |-> <<>>, ou |-> <<>>, oue |-> <<>>, fo |-> <<>>, foe |-> <<>>, so |-> <<>>, ph |-> 0, u |-> 0]
EBegin(lang, id, x) == [op |-> "BEGIN", be |-> lang, id |-> id, W |-> CW, H |-> CH, ext |-> x]
RefExt == << [n |-> "A255", CA |-> 255, ca |-> 255], [n |-> "A128", CA |-> 128, ca |-> 128] >>
GsName(a) == IF a = 255 THEN "A255" ELSE "A128"
PdfOpMat(m) == <<m[1], m[4], m[2], m[5], m[3], m[6]>>             \* inverse of OpMat
Native(lang, e) == e.sim /\ (e.jk \in {"miter", "bevel", "round"} \/ (lang = "svg" /\ e.jk = "arcs"))
JoinNo(jk) == CASE jk = "miter" -> 0 [] jk = "round" -> 1 [] OTHER -> 2
\* the shape in local coordinates under cm, so that the pen is transformed by the CTM as well
RefPathPdf(sh, mv, ln, cl) == Cat([j \in 1..Len(sh) |->
      <<E(mv, sh[j].p[1])>> \o [i \in 1..(Len(sh[j].p) - 1) |-> E(ln, sh[j].p[i + 1])] \o (IF sh[j].c THEN <<E(cl, <<>>)>> ELSE <<>>)])
RefPdfPaint(e, d) ==
  CASE e.kind = "image" -> <<E("q", <<>>), [E("gs", <<>>) EXCEPT !.s = "A255"], E("cm", PdfOpMat(e.F)), [E("Do", <<>>) EXCEPT !.s = "Im0"], E("Q", <<>>)>>
    [] e.kind = "fill" -> <<E("q", <<>>), E("rg", e.col), [E("gs", <<>>) EXCEPT !.s = GsName(e.a)], E("cm", PdfOpMat(DrawM(d)))>>
                          \o RefPathPdf(Shapes[d.shape], "m", "l", "h") \o <<E(IF d.rule = 1 THEN "f*" ELSE "f", <<>>), E("Q", <<>>)>>
    [] e.kind = "stroke" /\ Native("pdf", e) ->
          <<E("q", <<>>), E("RG", e.col), [E("gs", <<>>) EXCEPT !.s = GsName(e.a)], E("w", <<d.width>>), E("J", <<d.cap>>), E("j", <<JoinNo(e.jk)>>),
            E("M", <<e.ml>>), [E("d", e.dashL) EXCEPT !.ph = e.phL % (IF e.dashed THEN SumSeq(Dbl(e.dashL)) ELSE 1)], E("cm", PdfOpMat(DrawM(d)))>>
          \o RefPathPdf(Shapes[d.shape], "m", "l", "h") \o <<E("S", <<>>), E("Q", <<>>)>>
    [] OTHER -> <<E("rg", e.col), [E("gs", <<>>) EXCEPT !.s = GsName(e.a)], E("c", <<>>), [E("f", <<>>) EXCEPT !.o = <<e.draw>>]>>
RefPsPaint(e, d) ==
  CASE e.kind = "image" -> <<E("gsave", <<>>), E("concat", PdfOpMat(e.F)), E("image", <<ImgW, ImgH, ImgW, 0, 0, -ImgH, 0, ImgH>>), E("grestore", <<>>)>>
    [] e.kind = "fill" -> <<E("gsave", <<>>), E("setrgbcolor", e.col), E("concat", PdfOpMat(DrawM(d)))>>
                          \o RefPathPdf(Shapes[d.shape], "moveto", "lineto", "closepath") \o <<E(IF d.rule = 1 THEN "eofill" ELSE "fill", <<>>), E("grestore", <<>>)>>
    [] e.kind = "stroke" /\ Native("ps", e) ->
          <<E("gsave", <<>>), E("setrgbcolor", e.col), E("setlinewidth", <<d.width>>), E("setlinecap", <<d.cap>>), E("setlinejoin", <<JoinNo(e.jk)>>),
            E("setmiterlimit", <<e.ml>>), [E("setdash", e.dashL) EXCEPT !.ph = e.phL], E("concat", PdfOpMat(DrawM(d)))>>
          \o RefPathPdf(Shapes[d.shape], "moveto", "lineto", "closepath") \o <<E("stroke", <<>>), E("grestore", <<>>)>>
    [] OTHER -> <<E("setrgbcolor", e.col), E("ellipse", <<>>), [E("fill", <<>>) EXCEPT !.o = <<e.draw>>]>>
P(n, t, v, s) == [n |-> n, src |-> "style", t |-> t, v |-> v, s |-> s, g |-> 1]
SvgEl(pr, d, tf, o) == [op |-> "path", pr |-> pr, d |-> d, tf |-> tf, tm |-> <<1,0,0,1,0,0>>, tmg |-> 0, o |-> o, oe |-> o, ou |-> <<>>, oue |-> <<>>, fo |-> <<>>, foe |-> <<>>, so |-> <<>>, a |-> <<>>, g |-> 1, s |-> ""]
SvgD(sh) == Cat([j \in 1..Len(sh) |-> [i \in 1..Len(sh[j].p) |-> [c |-> IF i = 1 THEN "M" ELSE "L", a |-> sh[j].p[i], g |-> 1]]
                                    \o (IF sh[j].c THEN <<[c |-> "z", a |-> <<>>, g |-> 1]>> ELSE <<>>)])
\* transform="matrix(..)" expressing the draw matrix in SVG coordinates: Flip . T = M . Flip'  where local y is flipped about 0
SvgTfOf(m) == LET t == MMul(MMul(Flip, m), MSc(1, -1)) IN <<[f |-> "matrix", a |-> PdfOpMat(t), g |-> 1]>>
SvgLocal(sh) == [j \in 1..Len(sh) |-> [p |-> [i \in 1..Len(sh[j].p) |-> <<sh[j].p[i][1], -sh[j].p[i][2]>>], c |-> sh[j].c]]
CapName(c) == CASE c = 0 -> "butt" [] c = 1 -> "round" [] c = 2 -> "square"
RefSvgPaint(e, d) ==
  CASE e.kind = "image" -> <<[SvgEl(<<>>, <<>>, SvgTfOf(MMul(DrawM(d), MTr(0, ImgH))), <<>>) EXCEPT !.op = "image", !.a = <<ImgW, ImgH>>]>>
    [] e.kind = "fill" -> <<SvgEl(<<P("fill", "color", e.col \o <<e.a>>, ""), P("fill-rule", "kw", <<>>, IF d.rule = 1 THEN "evenodd" ELSE "nonzero")>>,
                                 SvgD(SvgLocal(Shapes[d.shape])), SvgTfOf(DrawM(d)), <<>>)>>
    [] e.kind = "stroke" /\ Native("svg", e) ->
          <<SvgEl(<<P("fill", "none", <<>>, ""), P("stroke", "color", e.col \o <<e.a>>, ""), P("stroke-width", "num", <<d.width>>, ""),
                    P("stroke-linecap", "kw", <<>>, CapName(d.cap)), P("stroke-linejoin", "kw", <<>>, e.jk), P("stroke-miterlimit", "num", <<e.ml>>, ""),
                    IF e.dashed THEN P("stroke-dasharray", "nums", e.dashL, "") ELSE P("stroke-dasharray", "none", <<>>, ""),
                    P("stroke-dashoffset", "num", <<e.phL>>, "")>>,
                  SvgD(SvgLocal(Shapes[d.shape])), SvgTfOf(DrawM(d)), <<>>)>>
    [] OTHER -> <<SvgEl(<<P("fill", "color", e.col \o <<e.a>>, "")>>, <<[c |-> "C", a |-> <<>>, g |-> 1]>>, <<>>, <<e.draw>>)>>
RefPaint(lang, e, d) == CASE lang = "pdf" -> RefPdfPaint(e, d) [] lang = "ps" -> RefPsPaint(e, d) [] lang = "svg" -> RefSvgPaint(e, d)
RefProlog(lang) == CASE lang = "pdf" -> <<[E("cm", <<>>) EXCEPT !.u = 1]>>
                     [] lang = "ps" -> <<E("%%BoundingBox", <<0, 0, CW, CH>>), [E("def", <<>>) EXCEPT !.s = "ellipse"]>>
                     [] lang = "svg" -> <<[op |-> "svg", a |-> <<CW, CH>>, s |-> "mm", vb |-> <<0, 0, CW, CH>>, g |-> 1]>>
RefTrace(lang, pr) == LET q == ExpQueue(pr) IN
                      <<EBegin(lang, 1, IF lang = "pdf" THEN RefExt ELSE <<>>)>> \o [j \in 1..Len(pr) |-> [op |-> "Request", d |-> pr[j]]]
                      \o RefProlog(lang)
                      \o Cat([i \in 1..Len(q) |-> RefPaint(lang, q[i], pr[q[i].draw])])
                      \o <<[op |-> "END"]>>

\* ---------------------------------------------------------------------------------------------
\* model-level specification: the reference emitter drives the interpreter
\* ---------------------------------------------------------------------------------------------
VARIABLES mprog, mlang, mtrace, gprog, gdone
gvars == <<gprog, gdone>>
mvars == <<vars, mprog, mlang, mtrace, gprog, gdone>>
Idle == mprog = <<>> /\ mlang = "" /\ mtrace = <<>> /\ gprog = <<>> /\ gdone = TRUE       \* the variables of the other roles of this module
MEv == mtrace[l]
MHas == l <= Len(mtrace)
MDraws == IF Mode = "mcfull" THEN {Fix(Mk(st, RandomElement(GeomC12(FALSE)))) : st \in RandomSubset(Num, StyleSetC12)} ELSE IF Mode = "mcq" THEN SubStylesMid ELSE SubStylesBig
MInit == /\ IInit /\ l = 1 /\ mlang \in {"pdf", "ps", "svg"} /\ gprog = <<>> /\ gdone = TRUE
         /\ mprog \in IF Mode = "mcfull" THEN {<<d>> : d \in MDraws}
                      ELSE {<<d>> : d \in MDraws} \cup {<<c, d>> : c \in RandomSubset(Num, MDraws), d \in RandomSubset(Num, MDraws)}
         /\ mtrace = RefTrace(mlang, mprog)
Adv == l' = l + 1 /\ UNCHANGED <<mprog, mlang, mtrace, gprog, gdone>>
\* one step of the interpreter of the language of the current program on event ev
Interp(ev) ==
          \/ Begin(ev) \/ Request(ev) \/ End(ev)
          \/ PdfState(ev) \/ PdfSave(ev) \/ PdfRestore(ev) \/ PdfConcat(ev) \/ PdfPath(ev) \/ PdfClipOp(ev) \/ PdfPaint(ev) \/ PdfDo(ev)
          \/ PsState(ev) \/ PsSave(ev) \/ PsRestore(ev) \/ PsCtm(ev) \/ PsPath(ev) \/ PsDef(ev) \/ PsCall(ev) \/ PsPaint(ev) \/ PsImage(ev) \/ PsBBox(ev) \/ PsNop(ev)
          \/ SvgRoot(ev) \/ SvgPathEl(ev) \/ SvgImageEl(ev) \/ SvgNop(ev)
          \/ Unknown(ev)
MNext == MHas /\ Adv /\ Interp(MEv)
MSpec == MInit /\ [][MNext]_mvars
\* model-level properties: the reference emitter's output conforms at every step and everything is consumed
MConform == Conform
MComplete == (~MHas) => (k = Len(queue) /\ stk = <<>> /\ Len(queue) = Len(ExpQueue(mprog)))

\* ---------------------------------------------------------------------------------------------
\* scenario generator: drawing programs, printed with the requested paints (for the record) and their features
\* ---------------------------------------------------------------------------------------------
ASSUME PrintT("@@" \o ToJson(Header))
Progs == IF Mode = "hdr" THEN {<<>>} ELSE IF Mode = "solidoff" THEN {<<d>> : d \in SolidOff} ELSE IF Mode = "sub2" THEN {<<d>> : d \in SubStyles} \cup (IF Num = 0 THEN {<<c, d>> : c \in SubStyles, d \in SubStyles}
                                                                ELSE RandomSubset(Num, {<<c, d>> : c \in SubStyles, d \in SubStyles}))
         ELSE IF Mode = "sub2big" THEN {<<c, d>> : c \in SubStylesMid, d \in SubStylesMid}
         ELSE IF Profile = "c12" THEN      \* "rand": all shapes; "randf": programs that get a raster frame (no arcs: Raster.tla is polygonal)
              {[i \in 1..PLen |-> Fix(Mk(f[i], RandomElement(GeomC12(Mode = "rand"))))] : f \in RandomSubset(Num, [1..PLen -> StyleSetC12])}
         ELSE {[i \in 1..PLen |-> Fix(f[i])] : f \in RandomSubset(Num, [1..PLen -> RawDraws])}
GInit == gprog \in Progs /\ gdone = FALSE /\ IInit /\ l = 1 /\ mprog = <<>> /\ mlang = "" /\ mtrace = <<>>
Brief(e) == [kind |-> e.kind, draw |-> e.draw, col |-> e.col, a |-> e.a, pen |-> e.pen, jk |-> e.jk, ml |-> e.ml, dash |-> e.dash, ph |-> e.ph, sim |-> e.sim]
GScenario == [prog |-> gprog, paints |-> [i \in 1..Len(ExpQueue(gprog)) |-> Brief(ExpQueue(gprog)[i])]]
GEmit == ~gdone /\ gdone' = TRUE /\ UNCHANGED <<gprog, vars, mprog, mlang, mtrace>> /\ PrintT("@@" \o ToJson(GScenario))
GSpec == GInit /\ [][GEmit]_mvars
=============================================================================
