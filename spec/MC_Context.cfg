SPECIFICATION Spec
CONSTANTS MaxLen = 4
 EmitAt = 0
 W0 = 10
 H0 = 8
 Profile = "small"
INVARIANTS TypeOK OrderOK FitPost StackDepth
PROPERTIES LayersStable PushPopRestores
CONSTRAINT Small
CHECK_DEADLOCK FALSE
