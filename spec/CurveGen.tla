------------------------------ MODULE CurveGen ------------------------------
(* Decoding of random integer vectors into lattice curve contours (LatCurves), shared by the        *)
(* scenario generators of Query (C06), Transform (C07), Bounds (C08) and Measure (C09).             *)
(* TLC samples vectors with  RandomSubset(k, [1..GenLen -> 0..GenMax])  (seeded by -seed; the set   *)
(* of functions is never enumerated) and every template below maps a vector to a contour whose      *)
(* arcs lie exactly on integer ellipses.  n = size of the control lattice 0..n.                      *)
EXTENDS LatCurves, SequencesExt, FiniteSetsExt

GenLen == 24
GenMax == 9972          \* vectors are taken modulo small numbers; 9973 is prime

\* TLC's RandomSubset over a set of more than 2^63 elements (such as [1..24 -> 0..9972]) is NOT uniform: it returns
\* vectors whose leading entries are all equal (measured).  Scenario generators therefore sample integer SEEDS,
\*     s \in RandomSubset(Num, GenSeeds),
\* and expand each seed into a vector with two linear congruential generators modulo the primes 9973 and 9967
\* (all products stay below 2^31).
GenSeeds == 1..2000000000
RECURSIVE Lcg_(_, _, _, _, _)
Lcg_(x, a, c, p, i) == IF i = 0 THEN x ELSE Lcg_((a * x + c) % p, a, c, p, i - 1)
GenVec(seed) == LET x0 == seed % 9973 y0 == (seed \div 9973) % 9967 IN
                [i \in 1..GenLen |-> (Lcg_(x0, 1237, 311, 9973, i + 2) + Lcg_(y0, 2411, 1777, 9967, 2 * i + 1)) % 9973]

\* ---- ellipse families (lattice units): radii, rotation; FamSeq = the lattice points on the ellipse (centre 0) ----
Fams == << [rad |-> <<1, 1>>, rot |-> 0], [rad |-> <<2, 2>>, rot |-> 0], [rad |-> <<5, 5>>, rot |-> 0],
           [rad |-> <<2, 1>>, rot |-> 0], [rad |-> <<1, 2>>, rot |-> 0], [rad |-> <<10, 5>>, rot |-> 0],
           [rad |-> <<5, 10>>, rot |-> 0], [rad |-> <<10, 5>>, rot |-> 1], [rad |-> <<5, 10>>, rot |-> 1],
           [rad |-> <<4, 1>>, rot |-> 0], [rad |-> <<5, 1>>, rot |-> 0], [rad |-> <<15, 5>>, rot |-> 1] >>
Proto(f) == Ar(Z2, Fams[f].rad, Fams[f].rot, 0, 0, Z2)
FamR(f) == MaxI(Fams[f].rad[1], Fams[f].rad[2])
FamSeq == [f \in 1..Len(Fams) |-> SetToSeq({s \in (-15..15) \X (-15..15) : EllF(Proto(f), s) = 0})]
\* the arc a -> b (offsets from the centre c) on the ellipse of family f, with the large flag implied by the geometry;
\* for half ellipses (both flag values describe the same arc) the flag is taken from lgHalf
MkArc(f, c, a, b, sw, lgHalf) ==
    LET g0 == Ar(c, Fams[f].rad, Fams[f].rot, 0, sw, PAdd(c, b)) t == ArcTurn(PAdd(c, a), g0)
    IN [g0 EXCEPT !.lg = IF t = 0 THEN lgHalf ELSE IF (sw = 1) = (t > 0) THEN 0 ELSE 1]
UsableFams(n, famSet) == SelectSeq([i \in 1..Len(Fams) |-> i], LAMBDA f : f \in famSet /\ 2 * FamR(f) <= n)

Pick(seq, r) == seq[(r % Len(seq)) + 1]
LatPt(n, r1, r2) == <<r1 % (n + 1), r2 % (n + 1)>>

\* arc description decoded from rv[o .. o+7]: family, centre, two distinct way-points, sweep
ArcRec(rv, o, n, famSet) ==
    LET uf == UsableFams(n, famSet)
        f == Pick(uf, rv[o]) r == FamR(f) pts == FamSeq[f] np == Len(pts)
        c == <<r + (rv[o + 1] % (n - 2 * r + 1)), r + (rv[o + 2] % (n - 2 * r + 1))>>
        ia == rv[o + 3] % np ib == (ia + 1 + (rv[o + 4] % (np - 1))) % np
    IN [f |-> f, c |-> c, a |-> pts[ia + 1], b |-> pts[ib + 1], sw |-> rv[o + 5] % 2, lgh |-> rv[o + 6] % 2]
ArcOf(r) == MkArc(r.f, r.c, r.a, r.b, r.sw, r.lgh)
ArcStart(r) == PAdd(r.c, r.a)

Fix(a, g) == IF SegOK(a, g) THEN g ELSE Ln(g.p)
\* append segment g to contour-under-construction acc = <<start, segs>>, first drawing a line to `from` if needed
AddSeg(acc, from, g) == LET cur == IF Len(acc[2]) = 0 THEN acc[1] ELSE acc[2][Len(acc[2])].p IN
                        IF cur # from THEN <<acc[1], acc[2] \o <<Ln(from), g>>>> ELSE <<acc[1], Append(acc[2], g)>>
CurOf(acc) == IF Len(acc[2]) = 0 THEN acc[1] ELSE acc[2][Len(acc[2])].p

\* templates; kinds \subseteq {"L","Q","C","A"} restricts what may appear.  tmpl:
\*   0 one arc + its chord (closed 3 of 4 times, else open)   1 full ellipse (two arcs)      2 pie (centre, arc)
\*   3 one quad + chord                                        4 one cubic + chord (closed)
\*   5 mixed chain: up to one piece of every allowed kind in a random order, closed 3 of 4 times
Templates(kinds) == (IF "A" \in kinds THEN {0, 1, 2} ELSE {}) \cup (IF "Q" \in kinds THEN {3} ELSE {})
                    \cup (IF "C" \in kinds THEN {4} ELSE {}) \cup {5}
DecodeCtr(rv, n, kinds, famSet) ==
    LET ts == SetToSeq(Templates(kinds)) t == Pick(ts, rv[1])
        ar == ArcRec(rv, 2, n, famSet)
        v(i) == LatPt(n, rv[8 + 2 * i], rv[9 + 2 * i])        \* v(1) .. v(7)
        cl == rv[24] % 4 # 0
    IN CASE t = 0 -> Ctr(ArcStart(ar), <<ArcOf(ar)>>, cl)
         [] t = 1 -> Ctr(ArcStart(ar), <<ArcOf(ar), MkArc(ar.f, ar.c, ar.b, ar.a, ar.sw, ar.lgh)>>, TRUE)
         [] t = 2 -> Ctr(ar.c, <<Ln(ArcStart(ar)), ArcOf(ar)>>, TRUE)
         [] t = 3 -> Ctr(v(1), <<Fix(v(1), Qd(v(2), v(3)))>>, cl)
         [] t = 4 -> Ctr(v(1), <<Fix(v(1), Cb(v(2), v(3), v(4)))>>, TRUE)
         [] t = 5 -> LET order == rv[8] % 6
                         a0 == <<v(1), <<>>>>
                         addL(acc) == IF "L" \in kinds THEN AddSeg(acc, CurOf(acc), Ln(v(2))) ELSE acc
                         addQ(acc) == IF "Q" \in kinds /\ rv[9] % 3 # 0 THEN AddSeg(acc, CurOf(acc), Fix(CurOf(acc), Qd(v(3), v(4)))) ELSE acc
                         addC(acc) == IF "C" \in kinds /\ rv[9] % 5 # 0 THEN AddSeg(acc, CurOf(acc), Fix(CurOf(acc), Cb(v(5), v(6), v(7)))) ELSE acc
                         addA(acc) == IF "A" \in kinds THEN AddSeg(acc, ArcStart(ar), ArcOf(ar)) ELSE acc
                         r == CASE order = 0 -> addC(addA(addQ(addL(a0))))
                                [] order = 1 -> addL(addQ(addA(addC(a0))))
                                [] order = 2 -> addQ(addL(addC(addA(a0))))
                                [] order = 3 -> addA(addC(addL(addQ(a0))))
                                [] order = 4 -> addL(addA(addL(addQ(a0))))
                                [] order = 5 -> addA(addL(addA(addC(a0))))
                     IN Ctr(r[1], IF Len(r[2]) = 0 THEN <<Ln(v(2))>> ELSE r[2], cl)
=============================================================================
