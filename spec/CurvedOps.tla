----------------------------- MODULE CurvedOps -----------------------------
(* C01 / C02 on curved paths.  A curved contour is a closed sequence of K cubic Bezier segments with lattice    *)
(* end and control points.  Exact statements about a Bezier curve are made through dyadic de Casteljau           *)
(* subdivision in integers: each cubic is split to depth 2 (four pieces, coordinates scaled by 64).  A piece     *)
(* lies inside the convex hull of its four control points and the closed curve "piece followed by its reversed   *)
(* chord" lies in that hull too, so for a point OUTSIDE all piece hulls the winding number of the curved path    *)
(* equals the winding number of the polyline through the subdivision points.  Samples inside (or on) a piece     *)
(* hull are "free".  Everything is integer arithmetic; coordinates stay below 2^12.                              *)
EXTENDS Lattice, TLC, Json, Randomization

CONSTANTS N, K, Num, What      \* lattice 0..N, K cubic segments per contour, Num random contours per operand, "bool" | "settle"
S == 15
D == 64                        \* 8^2: scale of depth-2 subdivision
Pt == (0..N) \X (0..N)
Offs == << <<5, 3>>, <<11, 8>>, <<4, 12>> >>
NS == N * N * 3
Sample(k) == LET c == (k - 1) \div 3 o == Offs[((k - 1) % 3) + 1]
             IN << S * (c % N) + o[1], S * (c \div N) + o[2] >>
Sample64(k) == << D * Sample(k)[1], D * Sample(k)[2] >>

Segs == [p : Pt, c1 : Pt, c2 : Pt]
CContours == [1..K -> Segs]
VARIABLES p, q, done
vars == <<p, q, done>>

V(k, u) == <<k * u[1], k * u[2]>>
A2(u, v) == <<u[1] + v[1], u[2] + v[2]>>
A3(u, v, w) == <<u[1] + v[1] + w[1], u[2] + v[2] + w[2]>>
A4(u, v, w, x) == <<u[1] + v[1] + w[1] + x[1], u[2] + v[2] + w[2] + x[2]>>
\* split the cubic (a,b,c,d) at t = 1/2; both halves are scaled by 8
Left(a, b, c, d)  == << V(8, a), V(4, A2(a, b)), V(2, A3(a, V(2, b), c)), A4(a, V(3, b), V(3, c), d) >>
Right(a, b, c, d) == << A4(a, V(3, b), V(3, c), d), V(2, A3(b, V(2, c), d)), V(4, A2(c, d)), V(8, d) >>
\* the four depth-2 pieces of a cubic with control points at scale S, in curve order, at scale S*64
Pieces(a, b, c, d) == LET l == Left(a, b, c, d) r == Right(a, b, c, d) IN
    << Left(l[1], l[2], l[3], l[4]), Right(l[1], l[2], l[3], l[4]), Left(r[1], r[2], r[3], r[4]), Right(r[1], r[2], r[3], r[4]) >>
SegPieces(ct, i) == LET s == ct[i] e == ct[(i % Len(ct)) + 1].p
                    IN Pieces(V(S, s.p), V(S, s.c1), V(S, s.c2), V(S, e))
\* all pieces of a path (sequence of contours) and the dyadic polyline contours
AllPieces(path) == UNION {{SegPieces(path[j], i)[t] : t \in 1..4} : <<j, i>> \in {<<j, i>> \in (1..Len(path)) \X (1..K) : TRUE}}
Poly(ct) == [m \in 1..(4 * Len(ct)) |-> SegPieces(ct, ((m - 1) \div 4) + 1)[((m - 1) % 4) + 1][1]]
PolyPath(path) == [j \in 1..Len(path) |-> Poly(path[j])]

InTri(s, a, b, c) == LET d1 == Cross(a, b, s) d2 == Cross(b, c, s) d3 == Cross(c, a, s)
                     IN ~((d1 < 0 \/ d2 < 0 \/ d3 < 0) /\ (d1 > 0 \/ d2 > 0 \/ d3 > 0))
InHull(s, h) == InTri(s, h[1], h[2], h[3]) \/ InTri(s, h[1], h[2], h[4]) \/ InTri(s, h[1], h[3], h[4]) \/ InTri(s, h[2], h[3], h[4])

\* distance of s to the closed segment ab is at most r (over-approximated: integer square root rounded up), 32-bit safe
NearSeg(s, a, b, r) ==
    IF a = b THEN Len2(a, s) <= r * r
    ELSE LET t == DotP(a, b, s) l == Len2(a, b) IN
         IF t <= 0 THEN Len2(a, s) <= r * r
         ELSE IF t >= l THEN Len2(b, s) <= r * r
         ELSE Abs(Cross(a, b, s)) <= r * ISqrtHi(l)
BoxNear(s, h, r) == /\ s[1] >= SetMin({h[i][1] : i \in 1..4}) - r /\ s[1] <= SetMax({h[i][1] : i \in 1..4}) + r
                    /\ s[2] >= SetMin({h[i][2] : i \in 1..4}) - r /\ s[2] <= SetMax({h[i][2] : i \in 1..4}) + r
NearHull(s, h, r) == BoxNear(s, h, r) /\ \E i, j \in 1..4 : i < j /\ NearSeg(s, h[i], h[j], r)

FREE == 99
\* Margin version for embeddings at natural scale: the library flattens with the absolute tolerance 0.01, so the
\* flattened outline may leave a piece hull by up to 6 x 0.01 units; samples within MarginR (0.08 lattice units at
\* scale S*D = 960 per unit, i.e. 77) of a piece hull are free as well.
MarginR == 77
WVecM(path) == LET pieces == AllPieces(path) poly == PolyPath(path) IN
              [k \in 1..NS |-> LET s == Sample64(k) IN
                  IF (\E h \in pieces : BoxNear(s, h, MarginR) /\ (InHull(s, h) \/ NearHull(s, h, MarginR))) \/ OnPath(poly, s) THEN FREE ELSE Wind(poly, s)]
WVec(path) == LET pieces == AllPieces(path) poly == PolyPath(path) IN
              [k \in 1..NS |-> LET s == Sample64(k) IN
                  IF (\E h \in pieces : BoxNear(s, h, 0) /\ InHull(s, h)) \/ OnPath(poly, s) THEN FREE ELSE Wind(poly, s)]
B(x) == IF x THEN 1 ELSE 0
CellW(op, wa, wb) ==
    IF wa = FREE \/ wb = FREE THEN 2
    ELSE LET a == wa # 0 b == wb # 0 IN
         CASE op = "and" -> B(a /\ b) [] op = "or" -> B(a \/ b) [] op = "xor" -> B(a # b)
           [] op = "not" -> B(a /\ ~b) [] op = "div" -> B(a)
CellsW(op, wp, wq) == [k \in 1..NS |-> CellW(op, wp[k], wq[k])]
SettleW(rule, w) == IF w = FREE THEN 2 ELSE B(Fills(rule, w))

Scenario ==
    IF What = "bool"
    THEN LET wp == WVec(p) wq == WVec(q) mp == WVecM(p) mq == WVecM(q) IN
         [p |-> p, q |-> q, and |-> CellsW("and", wp, wq), or |-> CellsW("or", wp, wq), xor |-> CellsW("xor", wp, wq),
          not |-> CellsW("not", wp, wq), div |-> CellsW("div", wp, wq), decided |-> Cardinality({k \in 1..NS : wp[k] # FREE /\ wq[k] # FREE}),
          mand |-> CellsW("and", mp, mq), mor |-> CellsW("or", mp, mq), mxor |-> CellsW("xor", mp, mq),
          mnot |-> CellsW("not", mp, mq), mdiv |-> CellsW("div", mp, mq)]
    ELSE LET wp == WVec(p) wm == WVecM(p) IN
         [p |-> p, r0 |-> [k \in 1..NS |-> SettleW(0, wp[k])], r1 |-> [k \in 1..NS |-> SettleW(1, wp[k])],
          r2 |-> [k \in 1..NS |-> SettleW(2, wp[k])], r3 |-> [k \in 1..NS |-> SettleW(3, wp[k])],
          m0 |-> [k \in 1..NS |-> SettleW(0, wm[k])], m1 |-> [k \in 1..NS |-> SettleW(1, wm[k])],
          m2 |-> [k \in 1..NS |-> SettleW(2, wm[k])], m3 |-> [k \in 1..NS |-> SettleW(3, wm[k])],
          decided |-> Cardinality({k \in 1..NS : wp[k] # FREE}), decidedm |-> Cardinality({k \in 1..NS : wm[k] # FREE})]

Choice == {<<c>> : c \in RandomSubset(Num, CContours)}
Init == /\ p \in Choice /\ (IF What = "bool" THEN q \in Choice ELSE q = <<>>) /\ done = FALSE
Emit == /\ ~done /\ done' = TRUE /\ UNCHANGED <<p, q>> /\ PrintT("@@" \o ToJson(Scenario))
Spec == Init /\ [][Emit]_vars
Header == [hdr |-> TRUE, S |-> S, N |-> N, samples |-> [k \in 1..NS |-> Sample(k)]]
ASSUME PrintT("@@" \o ToJson(Header))

\* model-level sanity: the subdivision reproduces the end points and the first piece starts at the segment start
SubdivOK == done => \A j \in 1..Len(p) : \A i \in 1..K :
    LET pc == SegPieces(p[j], i) IN
    /\ pc[1][1] = V(S * D, p[j][i].p) /\ pc[4][4] = V(S * D, p[j][(i % K) + 1].p)
    /\ pc[1][4] = pc[2][1] /\ pc[2][4] = pc[3][1] /\ pc[3][4] = pc[4][1]
=============================================================================
