------------------------------- MODULE Layout -------------------------------
(* Property C16: post-conditions of a laid-out text (canvas.RichText.ToText / NewTextBox) stated over the       *)
(* observable output: Text.WalkLines / WalkSpans (span text, X, Width, line y), Text.Overflows, Bounds, Heights. *)
(* All lengths are integers in units of 1e-3 mm (quantised by the driver; model layouts use abstract units).    *)
(*                                                                                                              *)
(* An observed layout (event):                                                                                  *)
(*   [text  : input as code points,   width, indent, align \in {"L","R","C","J"}, ovf : Text.Overflows,          *)
(*    u     : size/unitsPerEm rounded up (glue is stretched in whole font units),                              *)
(*    ls : line stretch in thousandths,  lines : << [y, asc, desc, bot (= max descent + line gap), adj, spans : << [x, w, asc, desc, lv : bidi level, t : code points, g : glyph texts] >>] >>,        *)
(*    bounds : <<x0, y0, x1, y1>> (y upwards as Text.Bounds reports it), heights : <<top, bottom>>,              *)
(*    kp : [ok, items, brk]  the item list / breakpoints of the text (library's own builder and Linebreak),       *)
(*    bidi : TRUE for mixed-direction text: only the direction-independent clauses are evaluated (lines stacked, *)
(*           spans pairwise disjoint, inside the box unless Overflows, Bounds / Heights enclose)]                *)
(* y, asc, desc are measured downwards from the top of the box: a span covers [y - asc, y + desc].              *)
(* adj: what was added to the natural advances of the glue (space) glyphs of the line; 0 = left unstretched.    *)
(*                                                                                                              *)
(* Scenario generation: token lists over words, space, no-break space, ideographic space, soft hyphen,          *)
(* hyphen, newline, a word in a second face; x width selector x alignment x indent.                             *)
(* Model level (MC): an abstract first-fit layouter with integer advances produces layouts that must satisfy    *)
(* the post-conditions, and simple corruptions of them must be rejected (the conditions are not vacuous).       *)
EXTENDS KnuthPlass

CONSTANTS LMode,     \* "exh" | "exh2" | "rand" | "bidi" | "para" | "none" : token list generation
          NTok,      \* token list length
          NLRand,    \* size of the random subset
          MaxWSel,   \* width selectors 1..MaxWSel (the driver maps them to real widths, see notes/C16.md)
          Indents    \* set of indent selectors

VARIABLES sc         \* the scenario: [toks, wsel, align, indent]
lvars == <<vars, sc>>

SP == 32  NBSP == 160  IDSP == 12288  SHY == 173  HY == 45  NL == 10  CR == 13  ZW == 8203
\* what may be dropped at the end of a line: white space, including the zero width space U+200B (a break opportunity
\* that shows nothing: unlike the soft hyphen it is never replaced by a hyphen - the glyph clause below demands
\* glyph text = span text for every character but the soft hyphen)
WS == {SP, IDSP, NL, CR, ZW}
NLCh == {NL, CR}                \* explicit line breaks: LF, CR, and CR LF (one break)
GlueCh == {SP, IDSP}
\* Round 5. (a) OBJ: the placeholder character of an inline object (RichText.WriteCanvas / WritePath / WriteImage): the
\* event gives the width of the objects (objw) and every span the number of objects it carries (no).
\* (b) single-line layout (canvas.NewTextLine, event.api = "line"): every paragraph separator of Unicode starts a new line
OBJ == 65533
VT == 11  FF == 12  NEL == 133  LSEP == 8232  PSEP == 8233
SepCh == {NL, VT, FF, CR, NEL, LSEP, PSEP}

\* ---- sequences of code points --------------------------------------------------------------------------------
RECURSIVE Flat(_)
Flat(ss) == IF ss = <<>> THEN <<>> ELSE Head(ss) \o Flat(Tail(ss))
LineText(ln) == Flat([i \in 1..Len(ln.spans) |-> ln.spans[i].t])
LineGlyphs(ln) == Flat([i \in 1..Len(ln.spans) |-> ln.spans[i].g])
AllIn(R, p, q, S) == \A i \in p..q : R[i] \in S
Count(R, p, q, c) == Cardinality({i \in p..q : R[i] = c})
\* explicit line breaks among R[p..q]: every CR, and every LF that does not directly follow a CR
Breaks(R, p, q) == Cardinality({i \in p..q : R[i] = CR \/ (R[i] = NL /\ (i = 1 \/ R[i-1] # CR))})
IsPrefixAt(T, R, p) == p + Len(T) - 1 <= Len(R) /\ \A i \in 1..Len(T) : R[p + i - 1] = T[i]

\* Exactly-once, in logical order: the input is  T1 D1 T2 D2 .. Tk Dk  with Tj the text of line j and Dj dropped
\* line-ending white space; an explicit newline is always dropped and always followed by a new line, so a gap holds
\* at most one newline and the gap after the last line holds none.
RECURSIVE DecompG(_, _, _, _, _)
DecompG(R, T, p, j, strict) ==
  IF j > Len(T) THEN p = Len(R) + 1
  ELSE /\ IsPrefixAt(T[j], R, p)
       /\ LET q == p + Len(T[j]) IN
          \E d \in 0..(Len(R) - q + 1) :
             /\ AllIn(R, q, q + d - 1, WS)
             /\ (strict => Breaks(R, q, q + d - 1) <= (IF j < Len(T) THEN 1 ELSE 0))
             /\ DecompG(R, T, q + d, j + 1, strict)
Decomp(R, T, p, j) == DecompG(R, T, p, j, TRUE)
\* the same without the newline rule: tells "a newline did not start a line" apart from lost / duplicated characters
DecompLoose(R, T) == DecompG(R, T, 1, 1, FALSE)
\* the gaps of the decomposition that drops as little as possible first (used for features only)
RECURSIVE GapsOf(_, _, _, _)
GapsOf(R, T, p, j) ==
  IF j > Len(T) THEN <<>>
  ELSE LET q == p + Len(T[j])
           ds == {d \in 0..(Len(R) - q + 1) : /\ AllIn(R, q, q + d - 1, WS)
                                               /\ Breaks(R, q, q + d - 1) <= (IF j < Len(T) THEN 1 ELSE 0)
                                               /\ Decomp(R, T, q + d, j + 1)}
       IN IF ds = {} THEN <<>> ELSE LET d == MinOf(ds) IN <<[from |-> q, len |-> d]>> \o GapsOf(R, T, q + d, j + 1)

\* ---- the post-conditions ---------------------------------------------------------------------------------------
Right(sp) == sp.x + sp.w
\* extent of a line (spans are listed in logical order; in right-to-left runs that is not the order of their x)
LeftOf(ln)  == MinOf({ln.spans[i].x : i \in 1..Len(ln.spans)})
RightOf(ln) == LET R == {Right(ln.spans[i]) : i \in 1..Len(ln.spans)} IN CHOOSE v \in R : \A w \in R : w <= v
NGlue(ln) == LET t == LineText(ln) IN Count(t, 1, Len(t), SP) + Count(t, 1, Len(t), IDSP)
\* glue is stretched in whole font units: (glue glyphs + 1) * size/unitsPerEm, plus the quantisation of the log
LTol(e, ln) == (NGlue(ln) + 1) * e.u + 2
FirstIndent(e, j) == IF j = 1 THEN e.indent ELSE 0
\* the advance the line breaker reserves for an inline object is its width truncated to whole font units
NObj(ln) == LET t == LineText(ln) IN Count(t, 1, Len(t), OBJ)
OTol(e, ln) == NObj(ln) * e.u
RECURSIVE SortSet(_)
SortSet(S) == IF S = {} THEN <<>> ELSE LET m == MinOf(S) IN <<m>> \o SortSet(S \ {m})

\* ---- single-line layout (NewTextLine): the text is cut at every paragraph separator (CR LF is one); segment number v
\* (from 0, empty segments counted) is shown on a line at depth v * line height, empty segments show nothing.
\* event: [api = "line", text, align \in {"L","R","C"}, lh : line height (ascent + descent + line gap), lines, bounds]
LineFails(e) ==
  LET R == e.text
      IsBrk(i) == R[i] \in SepCh /\ ~(R[i] = NL /\ i > 1 /\ R[i-1] = CR)
      NonSep == {i \in 1..Len(R) : R[i] \notin SepCh}
      SegOf(i) == Cardinality({m \in 1..i : IsBrk(m)})
      V == SortSet({SegOf(i) : i \in NonSep})
      SegText(v) == LET P == SortSet({i \in NonSep : SegOf(i) = v}) IN [n \in 1..Len(P) |-> R[P[n]]]
      k == Len(e.lines)
      content == /\ k = Len(V)
                 /\ \A j \in 1..k : LineText(e.lines[j]) = SegText(V[j]) /\ LineGlyphs(e.lines[j]) = SegText(V[j])
      newline == (k = Len(V)) => \A j \in 1..k : Abs(e.lines[j].y - V[j] * e.lh) <= 2 + V[j]
      disjoint == \A j \in 1..k : LET sp == e.lines[j].spans IN
                     /\ Len(sp) > 0 /\ \A i \in 1..Len(sp) : sp[i].w >= 0
                     /\ \A i \in 1..Len(sp)-1 : Right(sp[i]) <= sp[i+1].x + 1
      align == \A j \in 1..k : Len(e.lines[j].spans) > 0 =>
                  IF e.align = "L" THEN Abs(LeftOf(e.lines[j])) <= 2
                  ELSE IF e.align = "R" THEN Abs(RightOf(e.lines[j])) <= 2
                  ELSE Abs(LeftOf(e.lines[j]) + RightOf(e.lines[j])) <= 4
      bounds == \A j \in 1..k : \A i \in 1..Len(e.lines[j].spans) : LET s == e.lines[j].spans[i] y == e.lines[j].y IN
                   /\ e.bounds[1] <= s.x + 1 /\ Right(s) <= e.bounds[3] + 1
                   /\ e.bounds[2] <= 0 - y - s.desc + 1 /\ 0 - y + s.asc <= e.bounds[4] + 1
  IN (IF content THEN {} ELSE {"line-content"})
     \cup (IF newline THEN {} ELSE {"line-newline-depth"})
     \cup (IF disjoint THEN {} ELSE {"line-span-overlap"})
     \cup (IF align THEN {} ELSE {"line-align"})
     \cup (IF bounds THEN {} ELSE {"line-bounds"})

\* K-P class of the line the breakpoints give to layout line j (three-valued, from the logged item widths)
KPBound(e) == e.kp.ok /\ Len(e.kp.brk) = Len(e.lines)
KPLine(e, j) ==
  LET it == e.kp.items
      a == IF j = 1 THEN 0 ELSE e.kp.brk[j-1] + 1
      b == e.kp.brk[j] + 1
      L == NatW(it, a, b)  Y == NatY(it, a, b)  Z == NatZ(it, a, b)
      sl == Slack(Max2(0, b - After(it, a)) + 2, 1)
  IN [cls |-> BoxCls(e.width, L, Y, Z, sl, 1), forced |-> IsForced(it[b])]

BoxFails(e) ==
  LET R == e.text  k == Len(e.lines)
      T == [j \in 1..k |-> LineText(e.lines[j])]
      ne == {j \in 1..k : Len(e.lines[j].spans) > 0}            \* lines that show something
      once == /\ \A j \in 1..k : \A i \in 1..Len(T[j]) : T[j][i] \notin NLCh      \* a line break character is never shown
              /\ Decomp(R, T, 1, 1)
      \* soft hyphen: shown as "-" exactly when it ends a line at a break (not decided when white space / the end follows it)
      shy == \A j \in ne : LET t == T[j] g == LineGlyphs(e.lines[j]) IN
                /\ Len(g) = Len(t)
                /\ \A i \in 1..Len(t) : IF t[i] # SHY THEN g[i] = t[i]
                                        ELSE /\ g[i] \in {SHY, HY}
                                             /\ (i < Len(t) => g[i] = SHY)
      shyend == \* position-dependent part: needs the decomposition
                once => LET G == GapsOf(R, T, 1, 1) IN
                  \A j \in ne : LET t == T[j] g == LineGlyphs(e.lines[j]) IN
                     (Len(g) = Len(t) /\ Len(t) > 0 /\ t[Len(t)] = SHY /\ j <= Len(G)) =>
                        (G[j].len = 0 /\ G[j].from <= Len(R) => g[Len(t)] = HY)
      \* stacked by their line heights: y strictly increasing; with a non-negative line stretch consecutive lines do
      \* not overlap (distance >= descent + next ascent); and equal line heights give equal distances: two pairs of
      \* consecutive shown lines with the same (bottom, next ascent) metrics are the same distance apart
      pairs == {j \in 1..k-1 : j \in ne /\ (j + 1) \in ne}
      stacked == /\ \A j \in 1..k-1 : /\ e.lines[j+1].y > e.lines[j].y
                                      /\ (e.ls >= 0 => e.lines[j+1].y - e.lines[j].y >= e.lines[j].desc + e.lines[j+1].asc - 2)
                 /\ \A j \in pairs, m \in pairs :
                       (e.lines[j].bot = e.lines[m].bot /\ e.lines[j+1].asc = e.lines[m+1].asc) =>
                          Abs((e.lines[j+1].y - e.lines[j].y) - (e.lines[m+1].y - e.lines[m].y)) <= 2
      disjoint == \A j \in ne : LET sp == e.lines[j].spans IN
                     IF e.bidi THEN \A i \in 1..Len(sp), m \in 1..Len(sp) : i < m => (Right(sp[i]) <= sp[m].x + 1 \/ Right(sp[m]) <= sp[i].x + 1)
                     ELSE \A i \in 1..Len(sp)-1 : Right(sp[i]) <= sp[i+1].x + 1      \* left-to-right: logical order is x order
      nonneg == \A j \in ne : \A i \in 1..Len(e.lines[j].spans) : e.lines[j].spans[i].w >= 0
      inside == e.ovf \/ \A j \in ne : /\ LeftOf(e.lines[j]) >= 0 - 2
                                       /\ RightOf(e.lines[j]) <= e.width + LTol(e, e.lines[j])
      left == e.align = "L" => \A j \in ne : Abs(LeftOf(e.lines[j]) - FirstIndent(e, j)) <= 2
      right == (e.align = "R" /\ ~e.ovf) => \A j \in ne : Abs(RightOf(e.lines[j]) - e.width) <= 2 + OTol(e, e.lines[j])
      \* line 1 is centred in [indent, width], the others in [0, width]
      centre == (e.align = "C" /\ ~e.ovf) => \A j \in ne :
                   Abs(LeftOf(e.lines[j]) + RightOf(e.lines[j]) - e.width - FirstIndent(e, j)) <= 4 + OTol(e, e.lines[j])
      juststart == e.align = "J" => \A j \in ne : Abs(LeftOf(e.lines[j]) - FirstIndent(e, j)) <= 2
      \* justified: a line that is not the last of its paragraph ends at the width when its adjustment ratio is surely
      \* within [-1, Tolerance]; it is left at its natural width when the ratio is surely outside; the last line of a
      \* paragraph keeps its natural width
      just == (e.align = "J" /\ KPBound(e)) => \A j \in ne :
                 LET ln == e.lines[j] kl == KPLine(e, j) tol == LTol(e, ln)
                     natural == Abs(ln.adj) <= tol
                     full == Abs(RightOf(ln) - e.width) <= tol
                 IN IF kl.forced THEN TRUE        \* the statement makes no demand on the last line of a paragraph
                    ELSE IF kl.cls = "F" THEN full
                    ELSE IF kl.cls = "I" THEN natural
                    ELSE (full \/ natural)
      \* Text.Bounds (y upwards) and Text.Heights (top above, bottom below the origin) enclose every span
      bounds == \A j \in ne : \A i \in 1..Len(e.lines[j].spans) : LET s == e.lines[j].spans[i] y == e.lines[j].y IN
                   /\ e.bounds[1] <= s.x + 1 /\ Right(s) <= e.bounds[3] + 1
                   /\ e.bounds[2] <= 0 - y - s.desc + 1 /\ 0 - y + s.asc <= e.bounds[4] + 1
      \* (with a negative line stretch lines overlap on purpose and a later line may rise above the first one: Heights,
      \* which reports the top of the first and the bottom of the last line, is then not required to enclose)
      heights == e.ls < 0 \/ \A j \in ne : \A i \in 1..Len(e.lines[j].spans) : LET s == e.lines[j].spans[i] y == e.lines[j].y IN
                   /\ 0 - e.heights[1] <= y - s.asc + 1 /\ y + s.desc <= e.heights[2] + 1
      \* inline objects: a span carries as many objects as its text has placeholder characters (none is lost or drawn
      \* twice) and is as wide as its objects
      objs == \A j \in ne : \A i \in 1..Len(e.lines[j].spans) : LET s == e.lines[j].spans[i] IN
                 /\ Count(s.t, 1, Len(s.t), OBJ) = s.no
                 /\ (s.no > 0 => Abs(s.w - s.no * e.objw) <= 2)
      general == (IF stacked THEN {} ELSE {"stacking"})
                 \cup (IF disjoint /\ nonneg THEN {} ELSE {"span-overlap"})
                 \cup (IF inside THEN {} ELSE {"outside-box"})
                 \cup (IF bounds THEN {} ELSE {"bounds"})
                 \cup (IF heights THEN {} ELSE {"heights"})
  IN IF e.bidi THEN general
     ELSE general
          \cup (IF once THEN {} ELSE IF DecompLoose(R, T) THEN {"newline-no-new-line"} ELSE {"content"})
          \cup (IF shy /\ shyend THEN {} ELSE {"soft-hyphen"})
          \cup (IF objs THEN {} ELSE {"object-lost"})
          \cup (IF left THEN {} ELSE {"align-left"})
          \cup (IF right THEN {} ELSE {"align-right"})
          \cup (IF centre THEN {} ELSE {"align-centre"})
          \cup (IF juststart /\ just THEN {} ELSE {"align-justify"})

LFails(e) == IF e.api = "line" THEN LineFails(e) ELSE BoxFails(e)

\* feature (DESIGN.md appendix B): some line break falls on two or more consecutive breakable spaces
BreakAtRepeatedSpace(e) ==
  LET R == e.text  T == [j \in 1..Len(e.lines) |-> LineText(e.lines[j])]
      G == GapsOf(R, T, 1, 1) IN
  \E j \in 1..Len(G) : j < Len(e.lines) /\ Cardinality({i \in G[j].from..(G[j].from + G[j].len - 1) : R[i] \in GlueCh}) >= 2
\* feature: white space is dropped in front of an explicit newline (a space at the end of a paragraph line)
SpaceBeforeNewline(e) ==
  LET R == e.text  T == [j \in 1..Len(e.lines) |-> LineText(e.lines[j])]
      G == GapsOf(R, T, 1, 1) IN
  \E j \in 1..Len(G) : \E i \in G[j].from..(G[j].from + G[j].len - 2) : R[i] \in GlueCh /\ R[i+1] \in NLCh
\* feature (mixed direction): some line starts, in logical order, with a span of embedding level >= 2 (a left-to-right
\* word at the start of a line of a right-to-left paragraph)
LineStartsEmbedded(e) == e.bidi /\ \E j \in 1..Len(e.lines) : Len(e.lines[j].spans) > 0 /\ e.lines[j].spans[1].lv >= 2
LExplain(e) == LET dec == e.api # "line" /\ ~e.bidi /\ Decomp(e.text, [j \in 1..Len(e.lines) |-> LineText(e.lines[j])], 1, 1) IN
               [k |-> e.k, fails |-> LFails(e),
                feat |-> (IF dec /\ BreakAtRepeatedSpace(e) THEN {"repspace"} ELSE {})
                         \cup (IF dec /\ SpaceBeforeNewline(e) THEN {"spacenl"} ELSE {})
                         \cup (IF LineStartsEmbedded(e) THEN {"startsembedded"} ELSE {})]

\* ---- scenario generation -------------------------------------------------------------------------------------------
\* soft hyphens only occur where they are meant to be used: inside words
Words == {"on", "women", "wo_men", "new2", "ne_w2"}
Toks == Words \cup {"sp", "nbsp", "idsp", "hy", "nl"}
Words2 == Words \cup {"wo_zmen"}                  \* wo + U+200B ZERO WIDTH SPACE + men
Toks2 == Toks \cup {"crlf", "cr", "wo_zmen"}     \* CR LF (one line break), a lone CR, a word with a zero width space
\* "bidi": a right-to-left paragraph (starts with a Hebrew word) that contains left-to-right words in both faces
BidiToks == {"heb", "sp", "on", "new2"}
BidiOK(f) == f[1] = "heb" /\ (\E i \in DOMAIN f : f[i] = "on") /\ (\E i \in DOMAIN f : f[i] = "new2")
\* "obj": inline objects between words of two faces, spaces and newlines (adjacent objects included)
ObjToks == {"obj", "on", "new2", "sp", "nl"}
HasObj(f) == \E i \in DOMAIN f : f[i] = "obj"
\* "line": NewTextLine with every paragraph separator: LF, CR, CR LF, VT, FF, U+0085, U+2028, U+2029
LineToks == {"on", "women", "sp", "hy", "nl", "cr", "crlf", "vt", "ff", "nel", "lsep", "psep"}
\* "para": NTok words separated by single spaces, justified, absolute narrow widths (selectors 7..10 = 20..23 mm)
Interleave(f) == [i \in 1..(2 * NTok - 1) |-> IF i % 2 = 1 THEN f[(i + 1) \div 2] ELSE "sp"]
TokLists == IF LMode = "exh" THEN [1..NTok -> Toks]
            ELSE IF LMode = "exh2" THEN [1..NTok -> Toks2]
            ELSE IF LMode = "rand" THEN RandomSubset(NLRand, [1..NTok -> Toks2])
            ELSE IF LMode = "bidi" THEN {f \in (IF NLRand = 0 THEN [1..NTok -> BidiToks] ELSE RandomSubset(NLRand, [1..NTok -> BidiToks])) : BidiOK(f)}
            ELSE IF LMode = "obj" THEN {f \in (IF NLRand = 0 THEN [1..NTok -> ObjToks] ELSE RandomSubset(NLRand, [1..NTok -> ObjToks])) : HasObj(f)}
            ELSE IF LMode = "line" THEN (IF NLRand = 0 THEN [1..NTok -> LineToks] ELSE RandomSubset(NLRand, [1..NTok -> LineToks]))
            ELSE IF LMode = "para" THEN {Interleave(f) : f \in RandomSubset(NLRand, [1..NTok -> Words2])}
            ELSE {}
Aligns == {"L", "R", "C", "J"}
LInit == /\ items = <<>> /\ width = 0 /\ ph = 1 /\ lt = <<>>
         /\ sc \in IF LMode = "para" THEN [toks : TokLists, wsel : 7..10, align : {"J"}, indent : {0}, api : {"box"}]
                   ELSE IF LMode = "line" THEN [toks : TokLists, wsel : {6}, align : {"L", "R", "C"}, indent : {0}, api : {"line"}]
                   ELSE [toks : TokLists, wsel : 1..MaxWSel, align : Aligns, indent : Indents, api : {"box"}]
LNext == UNCHANGED lvars
LSpec == LInit /\ [][LNext]_lvars
EmitScenario == PrintT("@@" \o ToJson(sc))

\* ---- model level: an abstract layouter whose output must satisfy the post-conditions ------------------------------------
\* advances: letters 2, space 1, ideographic space 2, no-break space 1, soft hyphen 0 (hyphen 1 when shown), "-" 1
TokText(t) == CASE t = "on" -> <<111, 110>> [] t = "women" -> <<119, 111, 109, 101, 110>> [] t = "new2" -> <<110, 101, 119>>
                [] t = "wo_men" -> <<119, 111, SHY, 109, 101, 110>> [] t = "ne_w2" -> <<110, 101, SHY, 119>>
                [] t = "sp" -> <<SP>> [] t = "nbsp" -> <<NBSP>> [] t = "idsp" -> <<IDSP>>
                [] t = "hy" -> <<HY>> [] t = "nl" -> <<NL>>
Adv(c) == IF c = SP \/ c = NBSP \/ c = HY THEN 1 ELSE IF c = SHY \/ c = NL THEN 0 ELSE 2
RECURSIVE AdvSum(_, _, _)
AdvSum(R, p, q) == IF p > q THEN 0 ELSE Adv(R[p]) + AdvSum(R, p + 1, q)
\* first-fit: the line starting at p takes characters up to the last break opportunity that still fits (after white
\* space, after "-", at a soft hyphen which then shows a hyphen); a newline ends the line; nothing fits: take one character run
BreakAfter(R, i) == i = Len(R) \/ R[i] \in GlueCh \/ R[i] = HY \/ R[i] = SHY \/ R[i] = NL
RECURSIVE TrimEnd(_, _, _)
TrimEnd(R, p, q) == IF q >= p /\ R[q] \in WS THEN TrimEnd(R, p, q - 1) ELSE q      \* last kept character
ShownW(R, p, q) == LET q2 == TrimEnd(R, p, q) IN AdvSum(R, p, q2) + (IF q2 >= p /\ R[q2] = SHY /\ q2 = q THEN 1 ELSE 0)
RECURSIVE SkipGlue(_, _)
SkipGlue(R, p) == IF p <= Len(R) /\ R[p] \in GlueCh THEN SkipGlue(R, p + 1) ELSE p
ModelLines(R, w, ind) ==
  LET RECURSIVE Go(_, _)
      Go(p, first) ==
        IF p > Len(R) THEN (IF first \/ R[Len(R)] = NL THEN <<[from |-> p, to |-> p - 1]>> ELSE <<>>)
        ELSE LET avail == w - (IF first THEN ind ELSE 0)
                 nlpos == {i \in p..Len(R) : R[i] = NL}
                 lim == IF nlpos = {} THEN Len(R) ELSE MinOf(nlpos)
                 fits == {i \in p..lim : BreakAfter(R, i) /\ ShownW(R, p, i) <= avail}
                 any == {i \in p..lim : BreakAfter(R, i)}
                 q == IF lim \in fits THEN lim ELSE IF fits # {} THEN CHOOSE i \in fits : \A m \in fits : m <= i
                      ELSE MinOf(any)
                 nx == IF R[q] = NL THEN q + 1 ELSE LET s == SkipGlue(R, q + 1) IN IF s <= Len(R) /\ R[s] = NL /\ s > q + 1 THEN s ELSE s
             IN <<[from |-> p, to |-> q]>> \o Go(nx, FALSE)
  IN Go(1, TRUE)
ModelEvent(s) ==
  LET R == Flat([i \in 1..Len(s.toks) |-> TokText(s.toks[i])])
      w == 3 + 3 * s.wsel   ind == s.indent
      segs == ModelLines(R, w, ind)
      mk(j) == LET p == segs[j].from  q == TrimEnd(R, p, segs[j].to)
                   t == SubSeq(R, p, q)
                   hyph == q >= p /\ R[q] = SHY /\ q = segs[j].to
                   g == IF hyph THEN SubSeq(t, 1, Len(t) - 1) \o <<HY>> ELSE t
                   lw == AdvSum(R, p, q) + (IF hyph THEN 1 ELSE 0)
                   x0 == (IF s.align = "R" THEN w - lw - (IF j = 1 THEN ind ELSE 0) ELSE 0) + (IF j = 1 THEN ind ELSE 0)
               IN [y |-> 3 * j, asc |-> 2, desc |-> 1, bot |-> 1, adj |-> 0, lw |-> lw,
                   spans |-> IF q < p THEN <<>> ELSE <<[x |-> x0, w |-> lw, asc |-> 2, desc |-> 1, no |-> 0, t |-> t, g |-> g]>>]
      ls == [j \in 1..Len(segs) |-> mk(j)]
      over == \E j \in 1..Len(ls) : ls[j].lw + (IF j = 1 THEN ind ELSE 0) > w
      xs == {ls[j].spans[1].x : j \in {j \in 1..Len(ls) : ls[j].spans # <<>>}} \cup {0}
      rs == {Right(ls[j].spans[1]) : j \in {j \in 1..Len(ls) : ls[j].spans # <<>>}} \cup {0}
  IN [k |-> 0, api |-> "box", objw |-> 0, text |-> R, width |-> w, indent |-> ind, align |-> s.align, ovf |-> over, u |-> 0, ls |-> 0, lines |-> ls,
      bounds |-> <<MinOf(xs), 0 - 3 * Len(ls) - 1, CHOOSE v \in rs : \A z \in rs : z <= v, 0>>,
      heights |-> <<0, 3 * Len(ls) + 1>>,
      kp |-> [ok |-> FALSE, brk |-> <<>>], bidi |-> FALSE]
\* the model's layouts (left and right aligned; the model does not centre or stretch) satisfy every post-condition
ModelOK == sc.align \in {"L", "R"} => LFails(ModelEvent(sc)) = {}
\* and corrupted layouts are rejected: a character lost, a line moved up, a span shifted out of place
DropFirstChar(e) == LET j == CHOOSE j \in 1..Len(e.lines) : e.lines[j].spans # <<>> /\ \A i \in 1..j-1 : e.lines[i].spans = <<>> IN
                    [e EXCEPT !.lines[j].spans[1].t = Tail(@), !.lines[j].spans[1].g = Tail(@)]
FirstShown(e) == LET j == CHOOSE j \in 1..Len(e.lines) : e.lines[j].spans # <<>> /\ \A i \in 1..j-1 : e.lines[i].spans = <<>> IN e.lines[j].spans[1].t[1]
HasText(e) == \E j \in 1..Len(e.lines) : e.lines[j].spans # <<>>
MutantsRejected == sc.align \in {"L", "R"} => LET e == ModelEvent(sc) IN
                     /\ (HasText(e) /\ FirstShown(e) \notin WS) => "content" \in LFails(DropFirstChar(e))
                     /\ Len(e.lines) >= 2 => "stacking" \in LFails([e EXCEPT !.lines[2].y = e.lines[1].y])
                     /\ (HasText(e) /\ ~e.ovf) => LET j == CHOOSE j \in 1..Len(e.lines) : e.lines[j].spans # <<>> IN
                           LFails([e EXCEPT !.lines[j].spans[1].x = @ + 5]) \cap {"align-left", "align-right", "outside-box"} # {}
=============================================================================
