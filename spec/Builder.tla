------------------------------ MODULE Builder ------------------------------
(* The path-builder machine of tdewolff/canvas (path.go MoveTo .. Close, Arc, Append, Join; shapes.go).  *)
(* A history of builder calls has a MEANING: the sequence of sub-paths it traces as the API documents it *)
(* (MoveTo starts a new sub-path; LineTo/QuadTo/CubeTo/ArcTo extend it from the pen; Close draws the     *)
(* line back to the most recent MoveTo and leaves the pen there; a segment after Close starts a new      *)
(* sub-path at that point; on the empty path the pen is (0,0)).  Nothing of the code's normalisations is *)
(* in the meaning.  Property C10 compares meanings modulo the NORMAL FORM the statement allows: only     *)
(* zero-length commands are dropped and collinear (same-direction) lines merged; a Bezier whose control  *)
(* points lie on its chord traces that chord and is a line; sub-paths without pieces vanish.             *)
(* All coordinates are lattice integers; angles are integer degrees (pieces carry milli-degrees).        *)
(* The same operators judge a decoded real command stream (module Trace_Builder).                        *)
EXTENDS Lattice, TLC, Json

CONSTANTS MaxLen,      \* maximal history length
          EmitFrom,    \* print scenarios for histories with EmitFrom <= Len(hist) ; 0 = never
          Profile      \* name of the call alphabet

VARIABLES st,          \* meaning of the history so far (record, see InitSt)
          hist         \* the call history (scenario)
vars == <<st, hist>>

\* ---- pieces -------------------------------------------------------------------------------------
\* <<2,x,y>> line | <<4,cx,cy,x,y>> quad | <<8,ax,ay,bx,by,x,y>> cube | <<16,rx,ry,rot_mdeg,flags,x,y>> arc
\* flags = large + 2*sweep, the encoding of Path.Data(); rot in milli-degrees, canonical 0 <= rot < 180000
EndOf(pc) == <<pc[Len(pc) - 1], pc[Len(pc)]>>
LinePc(e) == <<2, e[1], e[2]>>
ZeroLen(s, pc) ==
  CASE pc[1] = 2  -> EndOf(pc) = s
    [] pc[1] = 4  -> EndOf(pc) = s /\ <<pc[2], pc[3]>> = s
    [] pc[1] = 8  -> EndOf(pc) = s /\ <<pc[2], pc[3]>> = s /\ <<pc[4], pc[5]>> = s
    [] pc[1] = 16 -> EndOf(pc) = s
    [] OTHER -> FALSE
\* a Bezier whose control points all lie on the closed chord traces exactly the chord
Straight(s, pc) ==
  LET e == EndOf(pc) IN
  CASE pc[1] = 4 -> s # e /\ OnSeg(s, e, <<pc[2], pc[3]>>)
    [] pc[1] = 8 -> s # e /\ OnSeg(s, e, <<pc[2], pc[3]>>) /\ OnSeg(s, e, <<pc[4], pc[5]>>)
    [] OTHER -> FALSE
Canon(s, pc) == IF Straight(s, pc) THEN LinePc(EndOf(pc)) ELSE pc

\* ---- normal form --------------------------------------------------------------------------------
\* NFp walks the pieces of one sub-path. out: sequence of [s |-> start point, p |-> piece]; b: pen; cnt: number
\* of collinear REVERSALS met so far (consecutive lines, anti-parallel); K: the reversals that are merged away.
\* K = {} is the normal form of the property; K # {} models defect #6 (only used to name a deviation).
RECURSIVE NFp(_, _, _, _, _, _)
NFp(pcs, i, out, b, cnt, K) ==
  IF i > Len(pcs) THEN [out |-> out, cnt |-> cnt]
  ELSE LET pc == Canon(b, pcs[i])
           e  == EndOf(pc)
           n  == Len(out) IN
       IF ZeroLen(b, pc) THEN NFp(pcs, i + 1, out, b, cnt, K)
       ELSE IF pc[1] = 2 /\ n > 0 /\ out[n].p[1] = 2 /\ Cross(out[n].s, b, e) = 0
       THEN LET a == out[n].s IN
            IF DotP(b, a, e) < 0          \* (a-b).(e-b) < 0 : same direction, the line is extended
            THEN NFp(pcs, i + 1, [out EXCEPT ![n] = [s |-> a, p |-> pc]], e, cnt, K)
            ELSE IF (cnt + 1) \in K       \* reversal merged away (defect model)
                 THEN IF e = a THEN NFp(pcs, i + 1, SubSeq(out, 1, n - 1), e, cnt + 1, K)
                      ELSE NFp(pcs, i + 1, [out EXCEPT ![n] = [s |-> a, p |-> pc]], e, cnt + 1, K)
                 ELSE NFp(pcs, i + 1, Append(out, [s |-> b, p |-> pc]), e, cnt + 1, K)
       ELSE NFp(pcs, i + 1, Append(out, [s |-> b, p |-> pc]), e, cnt, K)

RECURSIVE NFs(_, _, _, _, _)
NFs(subs, j, acc, cnt, K) ==
  IF j > Len(subs) THEN [subs |-> acc, cnt |-> cnt]
  ELSE LET r  == NFp(subs[j].pcs, 1, <<>>, subs[j].s, cnt, K)
           ps == [i \in 1..Len(r.out) |-> r.out[i].p] IN
       IF ps = <<>> THEN NFs(subs, j + 1, acc, r.cnt, K)
       ELSE NFs(subs, j + 1, Append(acc, [s |-> subs[j].s, pcs |-> ps, z |-> subs[j].z]), r.cnt, K)
NFK(subs, K) == NFs(subs, 1, <<>>, 0, K).subs
NF(subs)     == NFK(subs, {})
NRev(subs)   == NFs(subs, 1, <<>>, 0, {}).cnt      \* number of collinear reversals in the meaning
EmptyM(subs) == NF(subs) = <<>>

\* ---- the machine ---------------------------------------------------------------------------------
\* mode: "fresh" nothing yet (pen (0,0)) | "moved" MoveTo pending | "open" sub-path in progress | "closed" just closed
InitSt == [subs |-> <<>>, mode |-> "fresh", pen |-> <<0, 0>>, bad |-> FALSE, amin |-> FALSE]   \* amin: feature ArcRadiiMinimal (sticky)
NewSub(s) == [s |-> s, pcs |-> <<>>, z |-> FALSE]
LastOf(q) == q[Len(q)]
SetLast(q, x) == [q EXCEPT ![Len(q)] = x]

MoveToM(m, p) ==
  [m EXCEPT !.subs = IF m.mode = "moved" THEN SetLast(m.subs, NewSub(p)) ELSE Append(m.subs, NewSub(p)),
            !.mode = "moved", !.pen = p]

\* zero-length commands are dropped when they are issued (they never move the pen, so this is neutral)
AddPiece(m, pc) ==
  IF pc[1] = 0 THEN [m EXCEPT !.bad = TRUE]
  ELSE IF ZeroLen(m.pen, Canon(m.pen, pc)) THEN m
  ELSE LET base == IF m.mode \in {"fresh", "closed"} THEN Append(m.subs, NewSub(m.pen)) ELSE m.subs
           l    == LastOf(base) IN
       [m EXCEPT !.subs = SetLast(base, [l EXCEPT !.pcs = Append(@, pc)]), !.mode = "open", !.pen = EndOf(pc)]

\* V: set of defect models in force. "b32": Close directly after MoveTo forgets the MoveTo (pen and mode fall
\* back to the end of what was there before) instead of leaving the pen at the moved-to point.
CloseM(m, V) ==
  CASE m.mode \in {"fresh", "closed"} -> m
    [] m.mode = "moved" ->
         IF "b32" \in V
         THEN LET rest == SubSeq(m.subs, 1, Len(m.subs) - 1) IN
              IF rest = <<>> THEN [m EXCEPT !.subs = rest, !.mode = "fresh", !.pen = <<0, 0>>]
              ELSE LET l == LastOf(rest) IN
                   IF l.z THEN [m EXCEPT !.subs = rest, !.mode = "closed", !.pen = l.s]
                   ELSE IF l.pcs = <<>> THEN [m EXCEPT !.subs = rest, !.mode = "moved", !.pen = l.s]
                   ELSE [m EXCEPT !.subs = rest, !.mode = "open", !.pen = EndOf(LastOf(l.pcs))]
         ELSE [m EXCEPT !.subs = SetLast(m.subs, [LastOf(m.subs) EXCEPT !.z = TRUE]), !.mode = "closed"]
    [] m.mode = "open" ->
         LET l == LastOf(m.subs)
             pcs2 == IF m.pen = l.s THEN l.pcs ELSE Append(l.pcs, LinePc(l.s)) IN
         [m EXCEPT !.subs = SetLast(m.subs, [l EXCEPT !.pcs = pcs2, !.z = TRUE]), !.mode = "closed", !.pen = l.s]

\* ---- arcs ----------------------------------------------------------------------------------------
\* ArcTo(rx, ry, rot, large, sweep, x, y) as documented (SVG end-point arcs): zero radius = straight line; radii are
\* taken absolute; canonical form rx >= ry, 0 <= rot < 180 (rot = 0 for circles); radii too small for the chord are
\* scaled up by lambda, lambda^2 = x1'^2/rx^2 + y1'^2/ry^2 (SVG F.6.6).  Exact for rot in {0,45,90,135} or circles; a
\* call whose scaled radii are not integers is outside the model (piece <<0>> marks the state bad).
RECURSIVE GCD(_, _)
GCD(a, b) == IF b = 0 THEN a ELSE GCD(b, a % b)
Lam2(pen, rx, ry, rot, e) ==      \* <<num, den>> of lambda^2
  LET dx == pen[1] - e[1]  dy == pen[2] - e[2] IN
  CASE rx = ry   -> <<dx*dx + dy*dy, 4*rx*rx>>
    [] rot = 0   -> <<dx*dx*ry*ry + dy*dy*rx*rx, 4*rx*rx*ry*ry>>
    [] rot = 90  -> <<dy*dy*ry*ry + dx*dx*rx*rx, 4*rx*rx*ry*ry>>
    [] rot = 45  -> <<(dx+dy)*(dx+dy)*ry*ry + (dy-dx)*(dy-dx)*rx*rx, 8*rx*rx*ry*ry>>
    [] rot = 135 -> <<(dy-dx)*(dy-dx)*ry*ry + (dx+dy)*(dx+dy)*rx*rx, 8*rx*rx*ry*ry>>
    [] OTHER     -> <<0, 0>>
ArcPiece(pen, rx0, ry0, rot0, fl, e) ==
  LET rxa == Abs(rx0)  rya == Abs(ry0) IN
  IF rxa = 0 \/ rya = 0 THEN LinePc(e)
  ELSE LET sw  == rxa < rya
           rx  == IF sw THEN rya ELSE rxa
           ry  == IF sw THEN rxa ELSE rya
           rot == IF rx = ry THEN 0 ELSE ((IF sw THEN rot0 + 90 ELSE rot0) % 180)
           l2  == Lam2(pen, rx, ry, rot, e) IN
       IF l2[2] = 0 THEN <<0>>
       ELSE IF l2[1] <= l2[2] THEN <<16, rx, ry, rot * 1000, fl, e[1], e[2]>>
       ELSE LET g  == GCD(l2[1], l2[2])                 \* lambda = sqrt(num/den): both reduced terms must be squares
                n  == l2[1] \div g   d == l2[2] \div g
                qn == ISqrtLo(n)     qd == ISqrtLo(d) IN
            IF qn * qn # n \/ qd * qd # d \/ (rx * qn) % qd # 0 \/ (ry * qn) % qd # 0 THEN <<0>>
            ELSE <<16, (rx * qn) \div qd, (ry * qn) \div qd, rot * 1000, fl, e[1], e[2]>>
\* the radii given are at most just large enough for the chord (lambda >= 1): the builder scales them to the minimal
\* ellipse, whose centre is an ill-conditioned function of the radii (feature ArcRadiiMinimal)
ArcIsMinimal(pen, rx0, ry0, rot0, e) ==
  LET rxa == Abs(rx0)  rya == Abs(ry0) IN
  IF rxa = 0 \/ rya = 0 \/ pen = e THEN FALSE
  ELSE LET sw  == rxa < rya
           rx  == IF sw THEN rya ELSE rxa
           ry  == IF sw THEN rxa ELSE rya
           rot == IF rx = ry THEN 0 ELSE ((IF sw THEN rot0 + 90 ELSE rot0) % 180)
           l2  == Lam2(pen, rx, ry, rot, e) IN
       l2[2] # 0 /\ l2[1] >= l2[2]
ArcAdd(m, rx, ry, rot, fl, e) ==
  [AddPiece(m, ArcPiece(m.pen, rx, ry, rot, fl, e)) EXCEPT !.amin = m.amin \/ ArcIsMinimal(m.pen, rx, ry, rot, e)]
ArcToM(m, a) == ArcAdd(m, a[1], a[2], a[3], a[4], <<a[5], a[6]>>)

\* Arc(rx, ry, rot, theta0, theta1): centre-form arc starting at the pen; multiples of 90 degrees only (lattice).
Rot90(p, k) == CASE k % 4 = 0 -> p [] k % 4 = 1 -> <<0 - p[2], p[1]>> [] k % 4 = 2 -> <<0 - p[1], 0 - p[2]>> [] OTHER -> <<p[2], 0 - p[1]>>
EllPt(rx, ry, rot, th) ==
  Rot90(CASE (th \div 90) % 4 = 0 -> <<rx, 0>> [] (th \div 90) % 4 = 1 -> <<0, ry>>
          [] (th \div 90) % 4 = 2 -> <<0 - rx, 0>> [] OTHER -> <<0, 0 - ry>>, rot \div 90)
ArcM(m, a) ==
  LET rx == a[1] ry == a[2] rot == a[3] th0 == a[4] th1 == a[5]
      dth   == Abs(th1 - th0)
      fl    == (IF dth % 360 > 180 THEN 1 ELSE 0) + (IF th0 < th1 THEN 2 ELSE 0)
      p0    == EllPt(rx, ry, rot, th0)
      p1    == EllPt(rx, ry, rot, th1)
      start == m.pen
      c     == <<start[1] - p0[1], start[2] - p0[2]>>
      opp   == <<c[1] - p0[1], c[2] - p0[2]>>
      endp  == <<c[1] + p1[1], c[2] + p1[2]>>
      arc(mm, e) == ArcAdd(mm, rx, ry, rot, fl, e)
      full  == IF dth >= 360 THEN arc(arc(m, opp), start) ELSE m
  IN IF dth >= 360 /\ dth % 360 = 0 THEN full ELSE arc(full, endp)

\* ---- operands of Append / Join -------------------------------------------------------------------
\* clean paths (already in normal form); the driver builds them with the same calls
SubR(s, pcs, z) == [s |-> s, pcs |-> pcs, z |-> z]
OperandSubs(k) ==
  CASE k = 0 -> <<>>                                                                         \* empty
    [] k = 1 -> << SubR(<<1,1>>, <<>>, FALSE) >>                                               \* MoveTo(1,1) only
    [] k = 2 -> << SubR(<<1,1>>, <<LinePc(<<2,1>>)>>, FALSE) >>                                \* open line from (1,1)
    [] k = 3 -> << SubR(<<1,1>>, <<LinePc(<<2,1>>), LinePc(<<2,2>>), LinePc(<<1,1>>)>>, TRUE) >>   \* closed triangle
    [] k = 4 -> << SubR(<<0,0>>, <<LinePc(<<0,2>>)>>, FALSE),
                   SubR(<<2,0>>, <<LinePc(<<2,2>>), LinePc(<<1,2>>), LinePc(<<2,0>>)>>, TRUE) >>  \* open then closed
    [] k = 5 -> << SubR(<<1,1>>, << <<4, 2,1, 2,2>> >>, FALSE) >>                              \* open quad from (1,1)
    [] k = 6 -> << SubR(<<1,1>>, <<LinePc(<<0,1>>), LinePc(<<1,1>>)>>, TRUE),
                   SubR(<<2,2>>, <<LinePc(<<2,0>>)>>, FALSE) >>                                \* closed spike then open
OperandM(k) ==
  LET s == OperandSubs(k) IN
  IF s = <<>> THEN InitSt
  ELSE LET l == LastOf(s) IN
       [subs |-> s, bad |-> FALSE, amin |-> FALSE,
        mode |-> IF l.z THEN "closed" ELSE IF l.pcs = <<>> THEN "moved" ELSE "open",
        pen  |-> IF l.z \/ l.pcs = <<>> THEN l.s ELSE EndOf(LastOf(l.pcs))]

\* Append: q's sub-paths follow p's; an empty operand changes nothing; an empty receiver becomes q.
\* Defect model "bApp": an "empty" receiver (one that only holds a pending MoveTo) is replaced by a fresh path even when
\* nothing is appended, so the pending MoveTo is forgotten.
AppendM(m, q, V) ==
  IF EmptyM(q.subs) THEN (IF "bApp" \in V /\ EmptyM(m.subs) THEN InitSt ELSE m)
  ELSE IF EmptyM(m.subs) THEN q
  ELSE [m EXCEPT !.subs = m.subs \o q.subs, !.mode = q.mode, !.pen = q.pen]
\* Join: "like executing the commands in q to p in sequence"; falls back to Append if p ends in Close or q does
\* not start at the pen.  q's first sub-path continues p's current one; a Close in it closes p's sub-path.
JoinM(m, q, V) ==
  IF EmptyM(q.subs) THEN m
  ELSE IF EmptyM(m.subs) THEN q
  ELSE IF m.mode = "closed" \/ q.subs[1].s # m.pen THEN AppendM(m, q, V)
  ELSE LET f   == q.subs[1]
           RECURSIVE Add(_, _)
           Add(mm, i) == IF i > Len(f.pcs) THEN mm ELSE Add(AddPiece(mm, f.pcs[i]), i + 1)
           \* a closed operand's pieces include its closing line; Close on p draws p's own closing line instead
           n1  == IF f.z /\ f.pcs # <<>> /\ EndOf(LastOf(f.pcs)) = f.s /\ LastOf(f.pcs)[1] = 2 THEN Len(f.pcs) - 1 ELSE Len(f.pcs)
           RECURSIVE AddN(_, _)
           AddN(mm, i) == IF i > n1 THEN mm ELSE AddN(AddPiece(mm, f.pcs[i]), i + 1)
           m1  == IF f.z THEN CloseM(AddN(m, 1), V) ELSE Add(m, 1)
           rest == SubSeq(q.subs, 2, Len(q.subs)) IN
       IF rest = <<>> THEN m1
       ELSE [m1 EXCEPT !.subs = m1.subs \o rest, !.mode = q.mode, !.pen = q.pen]

\* ---- calls ---------------------------------------------------------------------------------------
Call(op, a) == [op |-> op, a |-> a]
Apply(m, c, V) ==
  CASE c.op = "MoveTo" -> MoveToM(m, <<c.a[1], c.a[2]>>)
    [] c.op = "LineTo" -> AddPiece(m, <<2, c.a[1], c.a[2]>>)
    [] c.op = "QuadTo" -> AddPiece(m, <<4, c.a[1], c.a[2], c.a[3], c.a[4]>>)
    [] c.op = "CubeTo" -> AddPiece(m, <<8, c.a[1], c.a[2], c.a[3], c.a[4], c.a[5], c.a[6]>>)
    [] c.op = "ArcTo"  -> ArcToM(m, c.a)
    [] c.op = "Arc"    -> ArcM(m, c.a)
    [] c.op = "Close"  -> CloseM(m, V)
    [] c.op = "Append" -> AppendM(m, OperandM(c.a[1]), V)
    [] c.op = "Join"   -> JoinM(m, OperandM(c.a[1]), V)
    [] OTHER           -> m          \* shape constructors are judged by ShapeVerdict, not through the machine
RECURSIVE MeaningFrom(_, _, _, _)
MeaningFrom(m, h, i, V) == IF i > Len(h) THEN m ELSE MeaningFrom(Apply(m, h[i], V), h, i + 1, V)
Meaning(h, V) == MeaningFrom(InitSt, h, 1, V)

\* ---- alphabets -----------------------------------------------------------------------------------
P9 == {<<x, y>> : x \in 0..2, y \in 0..2}
Pts(op, S) == {Call(op, p) : p \in S}
ShapeAlphabet ==
  Pts("Shape:Line", {<<0,0>>, <<2,0>>, <<-1,3>>})
  \cup Pts("Shape:Rectangle", {<<w, h>> : w \in {0, 4, -2}, h \in {0, 2, 4}})
  \* signed radii on both sides of the clamp min(w,h)/2: "a negative radius will cast the corners inwards", still clamped
  \cup Pts("Shape:BeveledRectangle", {<<w, h, r>> : w \in {0, 4, 8}, h \in {4, 6}, r \in {0, 1, 2, -1, 5, -3, -5, -8}})
  \cup Pts("Shape:RoundedRectangle", {<<w, h, r>> : w \in {0, 4, 8}, h \in {4, 6, 2}, r \in {0, 1, 2, -1, 5, -2, -3, -5, -8}})
  \cup Pts("Shape:Circle", {<<0>>, <<3>>, <<-2>>}) \cup Pts("Shape:Ellipse", {<<3,1>>, <<1,3>>, <<2,2>>, <<0,2>>, <<-1,2>>})
  \cup Pts("Shape:Grid", {<<14,14,2,2,2>>, <<10,6,3,1,1>>, <<4,4,1,1,1>>, <<4,4,0,1,1>>, <<2,2,1,1,1>>, <<9,9,2,2,1>>, <<14,14,2,2,-1>>})
  \cup Pts("Shape:Arc", {<<2,0,90>>, <<2,0,360>>, <<0,0,90>>, <<1,90,-630>>})
  \cup Pts("Shape:EllipticalArc", {<<2,1,0,0,180>>, <<1,2,90,0,-450>>, <<2,1,30,10,95>>})
  \cup Pts("Shape:Triangle", {<<0>>, <<2>>}) \cup Pts("Shape:RegularPolygon", {<<n, 2, u>> : n \in {0, 2, 3, 4, 7}, u \in {0, 1}})
  \cup Pts("Shape:RegularStarPolygon", {<<n, d, 2, u>> : n \in {2, 5, 6, 8}, d \in {0, 1, 2, 3, 4}, u \in {0, 1}})
  \cup Pts("Shape:StarPolygon", {<<n, 4, r, 1>> : n \in {2, 3, 5}, r \in {0, 2, 4, -2}})

Alphabet ==
  CASE Profile = "lines" ->      \* every direction from every point of the 3x3 lattice: zero-length, collinear
                                 \* same/opposite direction on both axes and both diagonals, back-to-start + Close
         Pts("LineTo", P9) \cup Pts("MoveTo", {<<1,1>>, <<2,0>>}) \cup {Call("Close", <<>>)}
    [] Profile = "curves" ->     \* degenerate control polygons from pen positions (0,0) (1,1) (2,2) (2,0)
         Pts("LineTo", {<<1,1>>, <<2,2>>, <<2,0>>}) \cup Pts("MoveTo", {<<1,1>>, <<0,0>>}) \cup {Call("Close", <<>>)}
         \cup Pts("QuadTo", {<<1,1,1,1>>, <<1,1,2,2>>, <<2,2,2,2>>, <<0,0,2,2>>, <<2,2,1,1>>, <<2,0,1,1>>, <<2,0,2,2>>, <<1,1,0,0>>, <<0,2,0,0>>})
         \cup Pts("CubeTo", {<<1,1,1,1,1,1>>, <<0,0,2,2,2,2>>, <<1,1,0,0,2,2>>, <<2,2,0,0,2,2>>, <<2,0,0,2,1,1>>, <<2,0,0,2,0,0>>, <<2,2,2,2,0,0>>, <<0,2,2,0,2,2>>})
    [] Profile = "arcs" ->       \* zero / negative / swapped / too small radii, rot >= 180, end = start, half turns, full turns
         Pts("LineTo", {<<2,0>>, <<0,0>>, <<4,0>>}) \cup Pts("MoveTo", {<<0,0>>, <<2,2>>}) \cup {Call("Close", <<>>)}
         \cup Pts("ArcTo", {<<1,1,0,0,2,0>>, <<1,1,30,3,2,0>>, <<1,1,0,2,4,0>>, <<0,1,0,0,2,0>>, <<2,0,0,1,0,0>>, <<2,1,0,1,2,2>>,
                            <<1,2,0,2,2,0>>, <<1,2,90,0,4,0>>, <<2,1,180,1,0,0>>, <<-2,1,270,3,2,2>>, <<1,2,45,0,0,2>>, <<4,2,135,2,2,2>>,
                            <<2,1,0,0,0,8>>, <<3,3,0,1,2,0>>, <<2,2,0,2,2,2>>, <<1,1,0,0,0,0>>})
         \cup Pts("Arc", {<<1,1,0,0,90>>, <<2,1,0,0,180>>, <<2,1,90,90,-90>>, <<1,1,0,0,360>>, <<2,1,0,180,-270>>, <<1,2,0,90,810>>,
                          <<1,1,0,90,90>>, <<2,2,180,0,-720>>})
    [] Profile = "joins" ->
         Pts("LineTo", {<<1,1>>, <<2,1>>, <<0,1>>}) \cup Pts("MoveTo", {<<1,1>>, <<0,0>>}) \cup {Call("Close", <<>>)}
         \cup Pts("Append", {<<k>> : k \in 0..6}) \cup Pts("Join", {<<k>> : k \in 0..6})
    [] Profile = "shapes" -> ShapeAlphabet
    [] OTHER ->                  \* "mix": union for deep random histories
         Pts("LineTo", P9 \cup {<<4,0>>}) \cup Pts("MoveTo", {<<1,1>>, <<2,0>>, <<0,0>>, <<2,2>>}) \cup {Call("Close", <<>>)}
         \cup Pts("QuadTo", {<<1,1,1,1>>, <<1,1,2,2>>, <<0,0,2,2>>, <<2,2,1,1>>, <<2,0,1,1>>, <<2,0,2,2>>, <<0,2,0,0>>, <<1,0,2,1>>})
         \cup Pts("CubeTo", {<<1,1,1,1,1,1>>, <<1,1,0,0,2,2>>, <<2,2,0,0,2,2>>, <<2,0,0,2,1,1>>, <<2,0,0,2,0,0>>, <<0,2,2,0,2,2>>, <<0,1,2,1,2,0>>})
         \cup Pts("ArcTo", {<<1,1,0,0,2,0>>, <<1,1,30,3,2,0>>, <<1,1,0,2,4,0>>, <<0,1,0,0,2,0>>, <<2,1,0,1,2,2>>, <<1,2,90,0,4,0>>,
                            <<2,1,180,1,0,0>>, <<-2,1,270,3,2,2>>, <<1,2,45,0,0,2>>, <<3,3,0,1,2,0>>, <<2,2,0,2,1,1>>})
         \cup Pts("Arc", {<<1,1,0,0,90>>, <<2,1,0,0,180>>, <<2,1,90,90,-90>>, <<1,1,0,0,360>>, <<1,2,0,90,810>>})
         \cup Pts("Append", {<<k>> : k \in {0,2,3,4,6}}) \cup Pts("Join", {<<k>> : k \in {1,2,3,5,6}})

\* ---- actions -------------------------------------------------------------------------------------
DoCall(c) == /\ st' = Apply(st, c, {})
             /\ ~st'.bad
             /\ hist' = Append(hist, c)
Init == st = InitSt /\ hist = <<>>
Next == Len(hist) < MaxLen /\ \E c \in Alphabet : DoCall(c)
Spec == Init /\ [][Next]_vars

\* ---- expected observation and scenario features ---------------------------------------------------
SubsJson(subs) == [j \in 1..Len(subs) |-> [s |-> subs[j].s, pcs |-> subs[j].pcs, z |-> subs[j].z]]
RECURSIVE StartsOf(_, _, _, _)     \* start point of each piece of a sub-path
StartsOf(pcs, i, b, acc) == IF i > Len(pcs) THEN acc ELSE StartsOf(pcs, i + 1, EndOf(pcs[i]), Append(acc, b))
AnyPiece(subs, P(_, _, _)) ==      \* P(sub, start, piece)
  \E j \in 1..Len(subs) : LET ss == StartsOf(subs[j].pcs, 1, subs[j].s, <<>>) IN
                          \E i \in 1..Len(subs[j].pcs) : P(subs[j], ss[i], subs[j].pcs[i])
Features(h, m) ==
  LET nf == NF(m.subs) IN
  [ nrev     |-> NRev(m.subs),                                   \* CollinearReversal
    open     |-> \E j \in 1..Len(nf) : ~nf[j].z,                \* HasOpenSubpath
    closed   |-> \E j \in 1..Len(nf) : nf[j].z,
    nsub     |-> Len(nf),
    mvclose  |-> \E i \in 1..Len(h) : h[i].op = "Close" /\ Meaning(SubSeq(h, 1, i - 1), {}).mode = "moved",   \* Close issued while a MoveTo is pending
    curveloop |-> AnyPiece(nf, LAMBDA sub, s, pc : pc[1] \in {4, 8} /\ EndOf(pc) = s),   \* Bezier returning to its start
    quadflat |-> AnyPiece(nf, LAMBDA sub, s, pc : pc[1] = 4 /\ Cross(s, EndOf(pc), <<pc[2], pc[3]>>) = 0),
    cubeflat |-> AnyPiece(nf, LAMBDA sub, s, pc : pc[1] = 8 /\ Cross(s, EndOf(pc), <<pc[2], pc[3]>>) = 0 /\ Cross(s, EndOf(pc), <<pc[4], pc[5]>>) = 0),
    curves   |-> AnyPiece(nf, LAMBDA sub, s, pc : pc[1] \in {4, 8}),
    arcs     |-> AnyPiece(nf, LAMBDA sub, s, pc : pc[1] = 16),
    arcmin   |-> m.amin,
    \* ArcChordEqualsRx: unrotated arc with a horizontal chord whose length equals rx (trigger of defect #21 in ellipseToCenter)
    arcchordrx |-> AnyPiece(nf, LAMBDA sub, s, pc : pc[1] = 16 /\ pc[4] = 0 /\ s[2] = EndOf(pc)[2] /\ Abs(EndOf(pc)[1] - s[1]) = pc[2]),
    spike    |-> \E j \in 1..Len(nf) : nf[j].z /\ Len(nf[j].pcs) <= 2 /\ \A i \in 1..Len(nf[j].pcs) : nf[j].pcs[i][1] = 2 ]
Scenario == [hist |-> hist, exp |-> SubsJson(NF(st.subs)), pen |-> st.pen, f |-> Features(hist, st)]
EmitInv == (EmitFrom > 0 /\ Len(hist) >= EmitFrom) => PrintT("@@" \o ToJson(Scenario))

\* ---- judging a decoded command stream (shared with Trace_Builder) ---------------------------------
\* stream: sequence of commands <<1,x,y>> move | <<2,x,y>> | <<4,..>> | <<8,..>> | <<16,rx,ry,rot,fl,x,y,rotraw,flraw,rge,rypos>> | <<32,x,y>> close
\* WFViolations: the well-formedness clauses of the property that the stream breaks (set of names)
RECURSIVE WFv(_, _, _, _, _, _)
WFv(sm, i, pen, start, state, acc) ==      \* state: "none" before any Move, "sub" inside a sub-path, "closed" after Close
  IF i > Len(sm) THEN acc
  ELSE LET c == sm[i]  e == EndOf(SubSeq(c, 1, IF c[1] = 16 THEN 7 ELSE Len(c))) IN
       CASE c[1] = 1  -> WFv(sm, i + 1, e, e, "sub", acc)
         [] c[1] = 32 -> WFv(sm, i + 1, start, start, "closed",
                             acc \cup (IF state # "sub" THEN {"segment-without-move"} ELSE {})
                                 \cup (IF e # start THEN {"close-not-at-start"} ELSE {}))
         [] OTHER ->
              LET pc == SubSeq(c, 1, IF c[1] = 16 THEN 7 ELSE Len(c))
                  a1 == IF state # "sub" THEN {"segment-without-move"} ELSE {}
                  a2 == IF ZeroLen(pen, pc) THEN {CASE c[1] = 2 -> "zero-length-line" [] c[1] = 4 -> "zero-length-quad"
                                                     [] c[1] = 8 -> "zero-length-cube" [] OTHER -> "zero-length-arc"} ELSE {}
                  a3 == IF c[1] = 16 THEN (IF c[10] = 1 /\ c[11] = 1 THEN {} ELSE {"arc-radii"})
                                      \cup (IF 0 <= c[8] /\ c[8] < 180000 THEN {} ELSE {"arc-rotation"})
                                      \cup (IF c[9] \in 0..3 THEN {} ELSE {"arc-flags"}) ELSE {} IN
              WFv(sm, i + 1, e, start, state, acc \cup a1 \cup a2 \cup a3)
WFViolations(sm) == WFv(sm, 1, <<0, 0>>, <<0, 0>>, "none", {})

\* the sub-paths a stream traces (decoded leniently: a segment without Move starts a sub-path at the pen)
RECURSIVE SubsOf(_, _, _, _, _)
SubsOf(sm, i, acc, pen, open) ==
  IF i > Len(sm) THEN acc
  ELSE LET c == sm[i] IN
       CASE c[1] = 1  -> SubsOf(sm, i + 1, Append(acc, NewSub(<<c[2], c[3]>>)), <<c[2], c[3]>>, TRUE)
         [] c[1] = 32 ->
              LET base == IF open THEN acc ELSE Append(acc, NewSub(pen))
                  l    == LastOf(base)
                  pcs2 == IF pen = l.s THEN l.pcs ELSE Append(l.pcs, LinePc(l.s)) IN
              SubsOf(sm, i + 1, SetLast(base, [l EXCEPT !.pcs = pcs2, !.z = TRUE]), l.s, FALSE)
         [] OTHER ->
              LET pc   == IF c[1] # 16 THEN c
                          ELSE IF c[2] = c[3] THEN <<16, c[2], c[3], 0, c[5], c[6], c[7]>>            \* circle: rotation is immaterial
                          ELSE IF c[2] < c[3] THEN <<16, c[3], c[2], (c[4] + 90000) % 180000, c[5], c[6], c[7]>>
                          ELSE <<16, c[2], c[3], c[4] % 180000, c[5], c[6], c[7]>>
                  base == IF open THEN acc ELSE Append(acc, NewSub(pen))
                  l    == LastOf(base) IN
              SubsOf(sm, i + 1, SetLast(base, [l EXCEPT !.pcs = Append(@, pc)]), EndOf(pc), TRUE)
StreamSubs(sm) == SubsOf(sm, 1, <<>>, <<0, 0>>, FALSE)

\* geometry verdict: "ok", or the name of the known deviation model that explains the stream, or "other"
Ks == SUBSET (1..6)
DefectModels == <<{"b32"}, {"bApp"}, {"b32", "bApp"}>>
ModelName(V) == IF V = {"b32"} THEN "moveto-close-forgets-moveto" ELSE IF V = {"bApp"} THEN "append-forgets-moveto"
                ELSE "moveto-close-forgets-moveto+append-forgets-moveto"
GeomVerdict(h, sm) ==
  LET obs == NF(StreamSubs(sm))
      m0  == Meaning(h, {})
      RECURSIVE Exact(_)          \* a defect model explains the stream exactly
      Exact(k) == IF k > Len(DefectModels) THEN ""
                  ELSE IF obs = NF(Meaning(h, DefectModels[k]).subs) THEN ModelName(DefectModels[k]) ELSE Exact(k + 1)
      RECURSIVE WithRev(_)        \* ... or together with merged reversals
      WithRev(k) == IF k > Len(DefectModels) THEN "other"
                    ELSE LET mk == Meaning(h, DefectModels[k]) IN
                         IF \E K \in Ks : K # {} /\ obs = NFK(mk.subs, K) THEN ModelName(DefectModels[k]) \o "+reversal-merged"
                         ELSE WithRev(k + 1) IN
  IF obs = NF(m0.subs) THEN "ok"
  ELSE IF Exact(1) # "" THEN Exact(1)
  ELSE IF \E K \in Ks : K # {} /\ obs = NFK(m0.subs, K) THEN "reversal-merged"
  ELSE WithRev(1)

\* ---- shape constructors (shapes.go) ---------------------------------------------------------------
\* A shape call is the history <<Call("Shape:<Name>", args)>>; lengths are lattice integers (the driver chooses the
\* unit), angles degrees.  The documentation fixes the geometry but not the start vertex or the direction of travel,
\* so closed polygons are compared by their corner sets, and rounded shapes by kinds, radii and tangent points.
\* "free" = the documentation does not say what the call yields (zero / negative sizes): only well-formedness applies.
PolySub(vs) == [s |-> vs[1], pcs |-> [i \in 1..Len(vs) |-> LinePc(vs[(i % Len(vs)) + 1])], z |-> TRUE]
AllLines(sub) == \A i \in 1..Len(sub.pcs) : sub.pcs[i][1] = 2
\* the start of a closed normal-form polygon is the only vertex that may lie inside a straight run
ThroughStart(sub) == LET n == Len(sub.pcs) IN
                     n >= 3 /\ LET a == EndOf(sub.pcs[n - 1]) b == EndOf(sub.pcs[1]) IN
                               Cross(a, sub.s, b) = 0 /\ DotP(sub.s, a, b) < 0
Corners(sub) == {EndOf(sub.pcs[i]) : i \in 1..Len(sub.pcs)} \ (IF ThroughStart(sub) THEN {sub.s} ELSE {})
IsPolygon(sub) == sub.z /\ AllLines(sub) /\ Len(sub.pcs) = Cardinality(Corners(sub)) + (IF ThroughStart(sub) THEN 1 ELSE 0)
PolyV(obs, vs) == LET e == NF(<<PolySub(vs)>>) IN
                  IF e = <<>> THEN (IF obs = <<>> THEN "ok" ELSE "shape-mismatch")
                  ELSE IF Len(obs) = 1 /\ IsPolygon(obs[1]) /\ Corners(obs[1]) = Corners(e[1]) THEN "ok" ELSE "shape-mismatch"
RectPts(x, y, w, h) == <<<<x, y>>, <<x + w, y>>, <<x + w, y + h>>, <<x, y + h>>>>
Tangents(w, h, r) == <<<<0, r>>, <<r, 0>>, <<w - r, 0>>, <<w, r>>, <<w, h - r>>, <<w - r, h>>, <<r, h>>, <<0, h - r>>>>
ClampR(w, h, r) == MinI(Abs(r), MinI(w \div 2, h \div 2))
ArcsOf(sub) == {i \in 1..Len(sub.pcs) : sub.pcs[i][1] = 16}
RoundV(obs, w, h, r) ==
  LET rr == ClampR(w, h, r) t == Tangents(w, h, rr) IN
  IF Len(obs) = 1 /\ obs[1].z
     /\ (\A i \in 1..Len(obs[1].pcs) : obs[1].pcs[i][1] \in {2, 16})
     /\ Cardinality(ArcsOf(obs[1])) = 4
     /\ (\A i \in ArcsOf(obs[1]) : LET pc == obs[1].pcs[i] IN pc[2] = rr /\ pc[3] = rr /\ pc[5] \in {0, 2})
     /\ (\A i, j \in ArcsOf(obs[1]) : obs[1].pcs[i][5] = obs[1].pcs[j][5])
     /\ {EndOf(obs[1].pcs[i]) : i \in 1..Len(obs[1].pcs)} = {t[i] : i \in 1..8}
  THEN "ok" ELSE "shape-mismatch"
EllV(obs, rx, ry) ==
  LET a == MaxI(rx, ry) b == MinI(rx, ry) rot == IF rx >= ry THEN 0 ELSE 90000 IN
  IF Len(obs) = 1 /\ obs[1].z /\ Len(obs[1].pcs) >= 2
     /\ (\A i \in 1..Len(obs[1].pcs) : LET pc == obs[1].pcs[i] e == EndOf(pc) IN
            /\ pc[1] = 16 /\ pc[2] = a /\ pc[3] = b /\ pc[4] = rot /\ pc[5] = obs[1].pcs[1][5]
            /\ ry*ry*e[1]*e[1] + rx*rx*e[2]*e[2] = rx*rx*ry*ry)
  THEN "ok" ELSE "shape-mismatch"
GridV(obs, w, h, nx, ny, r) ==
  LET dx == (w - (nx + 1) * r) \div nx  dy == (h - (ny + 1) * r) \div ny
      want == {Corners(PolySub(RectPts(0, 0, w, h)))} \cup
              {Corners(PolySub(RectPts(r + i * (r + dx), r + j * (r + dy), dx, dy))) : i \in 0..(nx - 1), j \in 0..(ny - 1)} IN
  IF Len(obs) = 1 + nx * ny /\ (\A k \in 1..Len(obs) : IsPolygon(obs[k])) /\ {Corners(obs[k]) : k \in 1..Len(obs)} = want
  THEN "ok" ELSE "shape-mismatch"
ShapeOps == {"Shape:Line", "Shape:Rectangle", "Shape:BeveledRectangle", "Shape:RoundedRectangle", "Shape:Circle", "Shape:Ellipse",
             "Shape:Grid", "Shape:Arc", "Shape:EllipticalArc", "Shape:Triangle", "Shape:RegularPolygon", "Shape:RegularStarPolygon", "Shape:StarPolygon"}
IsShape(h) == Len(h) = 1 /\ h[1].op \in ShapeOps
ShapeVerdict(c, obs) ==
  LET a == c.a IN
  CASE c.op = "Shape:Line" -> IF a = <<0, 0>> THEN (IF obs = <<>> THEN "ok" ELSE "shape-mismatch")
                              ELSE IF obs = <<[s |-> <<0, 0>>, pcs |-> <<LinePc(a)>>, z |-> FALSE]>> THEN "ok" ELSE "shape-mismatch"
    [] c.op = "Shape:Rectangle" -> IF a[1] = 0 \/ a[2] = 0 THEN "free" ELSE PolyV(obs, RectPts(0, 0, a[1], a[2]))
    [] c.op = "Shape:BeveledRectangle" ->
         IF a[1] <= 0 \/ a[2] <= 0 \/ a[1] % 2 # 0 \/ a[2] % 2 # 0 THEN "free"
         ELSE IF a[3] = 0 THEN PolyV(obs, RectPts(0, 0, a[1], a[2])) ELSE PolyV(obs, Tangents(a[1], a[2], ClampR(a[1], a[2], a[3])))
    [] c.op = "Shape:RoundedRectangle" ->
         IF a[1] <= 0 \/ a[2] <= 0 \/ a[1] % 2 # 0 \/ a[2] % 2 # 0 THEN "free"
         ELSE IF a[3] = 0 THEN PolyV(obs, RectPts(0, 0, a[1], a[2])) ELSE RoundV(obs, a[1], a[2], a[3])
    [] c.op = "Shape:Circle"  -> IF a[1] <= 0 THEN "free" ELSE EllV(obs, a[1], a[1])
    [] c.op = "Shape:Ellipse" -> IF a[1] <= 0 \/ a[2] <= 0 THEN "free" ELSE EllV(obs, a[1], a[2])
    [] c.op = "Shape:Grid" ->
         IF a[3] < 1 \/ a[4] < 1 \/ a[5] <= 0 \/ a[1] <= (a[3] + 1) * a[5] \/ a[2] <= (a[4] + 1) * a[5]
            \/ (a[1] - (a[3] + 1) * a[5]) % a[3] # 0 \/ (a[2] - (a[4] + 1) * a[5]) % a[4] # 0 THEN "free"
         ELSE GridV(obs, a[1], a[2], a[3], a[4], a[5])
    [] OTHER -> "free"
\* ---- derived operations: totality and side-effect freedom -----------------------------------------
\* Every public query/derivation must return on every built path (for finite arguments, lattice or not: the driver
\* also passes adversarial finite dash offsets such as -1e-17, one period of a decimal pattern, +-1e300).
\* No method may change Data() of its receiver unless its documentation says it works in place (InPlaceOps: Transform
\* "modifies the path in-place", Gridsnap "This operation is in-place") - this covers the pure queries (CCW, Filling,
\* Bounds, Length, Contains, ToSVG, scanners ...) as well as the derivations.  The methods whose documentation says
\* "returns a new path" (or, for the boolean operations and Settle, "returns the ... path" with nothing said about working
\* in place) must in addition leave every argument (paths and float slices) bit-identical.  Translate and Scale are
\* documented "returns a new path".
NewPathOps == {"Copy", "Flatten", "ReplaceArcs", "XMonotone", "Reverse", "Dash", "Offset", "Stroke",
               "Settle", "And", "Or", "Xor", "Not", "DivideBy", "Translate", "Scale"}
InPlaceOps == {"Transform", "Gridsnap"}
\* Aliasing model (Go slices: backing array, offset, len, cap).  The machine's state is a VALUE; Append and Join take an
\* argument path and return the extended path.  Result and argument are independent values afterwards: no later call on
\* the result (builder calls of the same history, LineTo, Transform) may change Data() of the argument, and none on the
\* argument may change the result - i.e. the result must not share the argument's backing array.  The one documented
\* exception: Join "returns ... q if p is empty" (the result IS the argument then).  The driver keeps every argument of a
\* history alive with its value, re-checks it after every later call and finally modifies both sides in place.
IndependentResultOps == {"Append", "Join"}
\* a derived-operation event logged by the driver: [op, ret (returned without panic/timeout), recv, args (unchanged)]
DeriveOK(ev) == ev.ret /\ (ev.op \notin InPlaceOps => ev.recv) /\ (ev.op \in NewPathOps => ev.args)
Header == [hdr |-> TRUE, newpath |-> NewPathOps, inplace |-> InPlaceOps, independent |-> IndependentResultOps]
HdrInv == (hist = <<>>) => PrintT("@@" \o ToJson(Header))

\* ---- model-level properties ------------------------------------------------------------------------
ModeOK == /\ st.mode \in {"fresh", "moved", "open", "closed"}
          /\ (st.mode = "fresh" => st.subs = <<>> /\ st.pen = <<0, 0>>)
          /\ (st.mode = "moved" => st.subs # <<>> /\ LastOf(st.subs).pcs = <<>> /\ ~LastOf(st.subs).z /\ st.pen = LastOf(st.subs).s)
          /\ (st.mode = "open"  => st.subs # <<>> /\ LastOf(st.subs).pcs # <<>> /\ ~LastOf(st.subs).z /\ st.pen = EndOf(LastOf(LastOf(st.subs).pcs)))
          /\ (st.mode = "closed" => st.subs # <<>> /\ LastOf(st.subs).z /\ st.pen = LastOf(st.subs).s)
\* every closed sub-path of the meaning returns to its start; the pieces of a sub-path are connected by construction
ClosedReturns == \A j \in 1..Len(st.subs) : (st.subs[j].z /\ st.subs[j].pcs # <<>>) => EndOf(LastOf(st.subs[j].pcs)) = st.subs[j].s
\* the normal form is a normal form: idempotent, no zero-length piece, no mergeable neighbours, no empty sub-path
NFIdem == NF(NF(st.subs)) = NF(st.subs)
NFClean == LET nf == NF(st.subs) IN
           /\ \A j \in 1..Len(nf) : nf[j].pcs # <<>>
           /\ ~AnyPiece(nf, LAMBDA sub, s, pc : ZeroLen(s, pc) \/ Straight(s, pc))
\* the meaning itself, rendered as a command stream, is well-formed and is judged "ok" (the judge accepts the spec)
RECURSIVE StreamOfSub(_, _, _, _)
StreamOfSub(sub, i, b, acc) ==
  IF i > Len(sub.pcs) THEN (IF sub.z THEN Append(acc, <<32, sub.s[1], sub.s[2]>>) ELSE acc)
  ELSE LET pc == sub.pcs[i] IN
       IF sub.z /\ i = Len(sub.pcs) /\ pc[1] = 2 /\ EndOf(pc) = sub.s THEN Append(acc, <<32, sub.s[1], sub.s[2]>>)
       ELSE StreamOfSub(sub, i + 1, EndOf(pc),
                        Append(acc, IF pc[1] = 16 THEN pc \o <<pc[4], pc[5], 1, 1>> ELSE pc))
RECURSIVE StreamOf(_, _, _)
StreamOf(subs, j, acc) == IF j > Len(subs) THEN acc
                          ELSE StreamOf(subs, j + 1, acc \o StreamOfSub(subs[j], 1, subs[j].s, <<<<1, subs[j].s[1], subs[j].s[2]>>>>))
SelfJudged == LET sm == StreamOf(NF(st.subs), 1, <<>>) IN WFViolations(sm) = {} /\ GeomVerdict(hist, sm) = "ok"
\* the defect models differ from the documented meaning only where their trigger occurs
B32OnlyAfterMoveClose == /\ (Meaning(hist, {"b32"}) # st) => \E i \in 1..Len(hist) : hist[i].op \in {"Close", "Join"}
                         /\ (Meaning(hist, {"bApp"}) # st) => \E i \in 1..Len(hist) : hist[i].op \in {"Append", "Join"}
=============================================================================
