------------------------------ MODULE Raster ------------------------------
(* C14 (and the rasterizer tie-in of C12): the painter's-order frame of a drawing program.              *)
(*                                                                                                       *)
(* The image of a W x H mm canvas at resolution r has round(W r) x round(H r) pixels; pixel (i, j)      *)
(* (column i from the left, row j from the TOP, both from 0) has its centre at canvas point              *)
(*      ( (i + 1/2) / r ,  (Hpx - (j + 1/2)) / r )        (vertical axis up, bottom row = canvas y 0).   *)
(* For every paint of the program, in order (fill, then stroke, of each draw), the pixel centre is      *)
(* classified against the transformed lattice path in exact integer arithmetic                           *)
(*   in   : inside the painted region and farther than Marg from its boundary                            *)
(*   out  : outside and farther than Marg                                                                *)
(*   free : anything else (the statement of C14 says nothing within a pixel of the boundary)             *)
(* and the frame is folded in painter's order: an opaque `in` paint sets the pixel to its colour, a      *)
(* translucent `in` paint or a `free` paint makes it free, an `out` paint leaves it.                     *)
(* All comparisons are one-sided (sound): a pixel is only classified in/out when that is certain.        *)
EXTENDS GState

CONSTANTS FRes,     \* 1, 2, 3, 5: pixels per mm ; 96: 96 dpi = 480/127 pixels per mm
          FMode     \* "prog": programs of the C12 generator ; "scene": C14 scenes

\* units: U units per mm, HP units per half pixel; pixel centres and path points are integers in these units
U  == IF FRes = 96 THEN 960 ELSE 2 * FRes
HP == IF FRes = 96 THEN 127 ELSE 1
PX == 2 * HP
\* int(W * r + 0.5)
Wpx == IF FRes = 96 THEN (CW * 480 * 2 + 127) \div 254 ELSE CW * FRes
Hpx == IF FRes = 96 THEN (CH * 480 * 2 + 127) \div 254 ELSE CH * FRes
\* tolerance: 1 pixel; for the non-integer resolution W r is not an integer and the statement does not fix where the
\* remaining fraction of a pixel goes: one more pixel of slack
Marg == IF FRes = 96 THEN 2 * PX ELSE PX
Centre(i, j) == << (2*i + 1) * HP, Hpx * PX - (2*j + 1) * HP >>

\* ---- sound distance comparisons without squares of cross products (32-bit safe) -----------------------
Edge(a, b) == [a |-> a, b |-> b, l |-> Len2(a, b), slo |-> ISqrtLo(Len2(a, b)), shi |-> ISqrtHi(Len2(a, b)),
               x0 |-> MinI(a[1], b[1]), x1 |-> MaxI(a[1], b[1]), y0 |-> MinI(a[2], b[2]), y1 |-> MaxI(a[2], b[2])]
\* certainly: dist(s, e) > R
FarFrom(e, s, rad) ==
    \/ s[1] < e.x0 - rad \/ s[1] > e.x1 + rad \/ s[2] < e.y0 - rad \/ s[2] > e.y1 + rad
    \/ IF e.l = 0 THEN Len2(e.a, s) > rad * rad
       ELSE LET t == DotP(e.a, e.b, s) IN
            IF t <= 0 THEN Len2(e.a, s) > rad * rad
            ELSE IF t >= e.l THEN Len2(e.b, s) > rad * rad
            ELSE Abs(Cross(e.a, e.b, s)) > rad * e.shi
\* certainly: s lies in the slab of e (projection inside the segment by more than m, perpendicular distance below rad)
InSlab(e, s, rad, m) == /\ e.l > 0 /\ rad > 0
                      /\ LET t == DotP(e.a, e.b, s) IN t >= m * e.shi /\ t <= e.l - m * e.shi
                      /\ Abs(Cross(e.a, e.b, s)) < rad * e.slo

\* ---- geometry of a draw in units -------------------------------------------------------------------------
UPts(m, s) == [i \in 1..Len(s.p) |-> LET q == MDot(m, s.p[i]) IN <<U * q[1], U * q[2]>>]
\* contours (implicitly closed) for the winding number, edges for distances
FillContours(d) == LET sh == Shapes[d.shape] m == DrawM(d) IN [j \in 1..Len(sh) |-> UPts(m, sh[j])] \o <<>>
EdgesOfContour(c, closed) == [i \in 1..(IF closed THEN Len(c) ELSE Len(c) - 1) |-> Edge(c[i], c[(i % Len(c)) + 1])]
RECURSIVE CatE(_)
CatE(ss) == IF ss = <<>> THEN <<>> ELSE Head(ss) \o CatE(Tail(ss))
FillEdges(d) == LET cs == FillContours(d) IN CatE([j \in 1..Len(cs) |-> EdgesOfContour(cs[j], TRUE)])
StrokeEdges(d) == LET cs == FillContours(d) sh == Shapes[d.shape] IN CatE([j \in 1..Len(cs) |-> EdgesOfContour(cs[j], sh[j].c)])

\* reach of the stroke beyond the centre line, as a multiple K/2 of the half width (sound upper bounds)
ReachK2(d) == LET jk == JoinKind(d.join) ml == JoinLimit(d.join)
                  kj == CASE jk \in {"bevel", "round"} -> 2 [] jk = "miter" -> 2 * ml [] OTHER -> 2 * (ml + 1)
                  kc == IF d.cap = 2 THEN 3 ELSE 2              \* square cap: sqrt(2) < 3/2
              IN MaxI(kj, kc)
LinNorm(q) == Abs(q[1]) + Abs(q[2]) + Abs(q[3]) + Abs(q[4])
\* half width in units (similarity views)
HalfW(d) == (d.width * ScaleL(Lin(DrawM(d))) * U) \div 2
StrokeReach(d) == LET q == Lin(DrawM(d)) IN
                  IF IntSim(q) THEN (HalfW(d) * ReachK2(d) + 1) \div 2 + Marg
                  ELSE (d.width * LinNorm(q) * U * ReachK2(d)) \div 4 + 1 + Marg

IN_ == 1
OUT_ == 0
FREE_ == 2
FillClass(cs, es, rule, s) ==
    IF \E i \in 1..Len(es) : ~FarFrom(es[i], s, Marg) THEN FREE_
    ELSE IF Fills(rule, Wind(cs, s)) THEN IN_ ELSE OUT_
StrokeClass(d, es, reach, hw, s) ==
    IF \A i \in 1..Len(es) : FarFrom(es[i], s, reach) THEN OUT_
    ELSE IF DashArr(d.dash) = <<>> /\ IntSim(Lin(DrawM(d))) /\ hw > Marg /\ \E i \in 1..Len(es) : InSlab(es[i], s, hw - Marg, Marg) THEN IN_
    ELSE FREE_
\* image: the parallelogram F(unit square); only its bounding box is used (inside: free, outside by Marg: out)
ImgClass(d, s) == LET F == MMul(DrawM(d), MSc(ImgW, ImgH))
                      xs == {U * MDot(F, c)[1] : c \in {<<0,0>>, <<1,0>>, <<0,1>>, <<1,1>>}}
                      ys == {U * MDot(F, c)[2] : c \in {<<0,0>>, <<1,0>>, <<0,1>>, <<1,1>>}}
                      \* the resampling kernel (Catmull-Rom, radius 2 source pixels) rings beyond the image: 3 source pixels of slack
                      ex == 3 * ((Abs(F[1]) * U) \div ImgW + (Abs(F[2]) * U) \div ImgH + 1) + Marg
                      ey == 3 * ((Abs(F[4]) * U) \div ImgW + (Abs(F[5]) * U) \div ImgH + 1) + Marg
                  IN IF s[1] < SetMin(xs) - ex \/ s[1] > SetMax(xs) + ex \/ s[2] < SetMin(ys) - ey \/ s[2] > SetMax(ys) + ey THEN OUT_ ELSE FREE_

\* ---- rotated ellipse: membership by the implicit equation in exact integers -----------------------------------------------
\* The pixel centre s is pulled back through the draw matrix (adjugate: local coordinates times K = U * det), rotated by the
\* integer matrix (cr, sr; -sr, cr) and tested against  b^2 x^2 + a^2 y^2  vs  (a b K den)^2.  Tolerance: a device disk of radius
\* Marg lies in a local disk of radius mloc = Marg * LinNorm / (U |det|); (1 - mloc/b) E  is inside E by more than that, and
\* (1 + mloc/b) E contains everything within that distance of E (scaling argument, b = smaller radius).  Square roots are one-sided.
EllClass(d, rule, s) ==
    LET e == Ells[d.shape - 20] m == DrawM(d) q == Lin(m) det == DetL(q) kk == U * det
        vx == s[1] - U * m[3] vy == s[2] - U * m[6]
        px == q[4] * vx - q[2] * vy  py == q[1] * vy - q[3] * vx             \* local point times kk
        dx == px - kk * e.c[1] dy == py - kk * e.c[2]
        ux == e.cr * dx + e.sr * dy uy == e.cr * dy - e.sr * dx              \* times kk * den
        q2 == e.b * e.b * ux * ux + e.a * e.a * uy * uy
        rr == e.a * e.b * Abs(kk) * e.den
        md == e.b * U * Abs(det) ml == Marg * LinNorm(q)
    IN IF md > ml /\ ISqrtHi(q2) * md < (md - ml) * rr THEN (IF Fills(rule, Sgn(det)) THEN IN_ ELSE OUT_)
       ELSE IF ISqrtLo(q2) * md > (md + ml) * rr THEN OUT_ ELSE FREE_

\* ---- paints of a program with everything that does not depend on the pixel precomputed -----------------------
ColIdx(n) == CHOOSE i \in 1..Len(PaintNames) : PaintNames[i] = n
FREECODE == 99
RPaints(d, nz) ==
    (IF d.img = 1 THEN <<[k |-> "img", d |-> d]>> ELSE <<>>)
    \o (IF HasFill(d) /\ IsEll(d) THEN <<[k |-> "ell", d |-> d, rule |-> IF nz THEN 0 ELSE d.rule, code |-> ColIdx(d.fill), tl |-> PaintTab[d.fill].a # 255]>>
        ELSE IF HasFill(d) THEN <<[k |-> "fill", d |-> d, cs |-> FillContours(d), es |-> FillEdges(d), rule |-> IF nz THEN 0 ELSE d.rule,
                             code |-> ColIdx(d.fill), tl |-> PaintTab[d.fill].a # 255]>> ELSE <<>>)
    \o (IF HasStroke(d) THEN <<[k |-> "stroke", d |-> d, es |-> StrokeEdges(d), reach |-> StrokeReach(d), hw |-> HalfW(d),
                               code |-> ColIdx(d.stroke), tl |-> PaintTab[d.stroke].a # 255]>> ELSE <<>>)
\* painter's order of a canvas: ascending z-index, then drawing order (Canvas.RenderViewTo; the rule of spec/Context.tla)
RECURSIVE ByZ(_, _)
ByZ(pr, zs) == IF zs = {} THEN <<>> ELSE LET zz == SetMin(zs) IN SelectSeq(pr, LAMBDA d : d.z = zz) \o ByZ(pr, zs \ {zz})
Ordered(pr) == ByZ(pr, {pr[i].z : i \in 1..Len(pr)})
RECURSIVE AllPaints(_, _, _)
AllPaints(pr, j, nz) == IF j > Len(pr) THEN <<>> ELSE RPaints(pr[j], nz) \o AllPaints(pr, j + 1, nz)
ClassOf(p, s) == CASE p.k = "img" -> ImgClass(p.d, s)
                   [] p.k = "fill" -> FillClass(p.cs, p.es, p.rule, s)
                   [] p.k = "ell" -> EllClass(p.d, p.rule, s)
                   [] p.k = "stroke" -> StrokeClass(p.d, p.es, p.reach, p.hw, s)
RECURSIVE Fold(_, _, _, _)
Fold(ps, n, s, acc) == IF n > Len(ps) THEN acc
                       ELSE LET c == ClassOf(ps[n], s) IN
                            \* a translucent paint over a certainly untouched pixel is that paint alone (its premultiplied colour);
                            \* over anything else the blend is not modelled
                            Fold(ps, n + 1, s, IF c = OUT_ THEN acc ELSE IF c = FREE_ \/ ps[n].k = "img" THEN FREECODE
                                               ELSE IF ps[n].tl /\ acc # 0 THEN FREECODE ELSE ps[n].code)
FrameOf(ps) == [j \in 0..(Hpx - 1) |-> [i \in 0..(Wpx - 1) |-> Fold(ps, 1, Centre(i, j), 0)]]
Rows(f) == [j \in 1..Hpx |-> [i \in 1..Wpx |-> f[j - 1][i - 1]]]

\* does some draw use a rule on which its shape's fill differs from non-zero?
\* (Positive / Negative depend on the orientation, which the draw matrix may flip: always sensitive)
RuleSensitive(pr) == \E j \in 1..Len(pr) : HasFill(pr[j]) /\ (pr[j].rule \in {2, 3} \/ (pr[j].rule = 1 /\ ~IsEll(pr[j]) /\ ~RuleSame(pr[j].shape, 1, 0)))
\* scenario features (exact): a filled shape with an open sub-path; a painted region that reaches beyond the left / top image border
OpenFill(pr) == \E j \in 1..Len(pr) : HasFill(pr[j]) /\ ~IsEll(pr[j]) /\ \E n \in 1..Len(Shapes[pr[j].shape]) : ~Shapes[pr[j].shape][n].c
\* a Positive / Negative fill of a shape with an open sub-path (the rasterizer settles the path with Path.Settle, which does not close it)
PosNegOpen(pr) == \E j \in 1..Len(pr) : HasFill(pr[j]) /\ ~IsEll(pr[j]) /\ pr[j].rule \in {2, 3} /\ \E n \in 1..Len(Shapes[pr[j].shape]) : ~Shapes[pr[j].shape][n].c
Reach(d) == IF HasStroke(d) THEN StrokeReach(d) ELSE 0
\* a stroked closed sub-path that crosses itself (DESIGN 8 #23: Path.Stroke drops part of the outline; C04's finding)
SelfX(sh) == \E n \in 1..Len(sh) : sh[n].c /\ LET q == sh[n].p m == Len(q) IN
                \E a \in 1..m, b \in 1..m : a < b /\ SegsCrossProperly(q[a], q[(a % m) + 1], q[b], q[(b % m) + 1])
StrokeSelfX(pr) == \E j \in 1..Len(pr) : HasStroke(pr[j]) /\ ~IsEll(pr[j]) /\ SelfX(Shapes[pr[j].shape])
CrossLeft(pr) == \E j \in 1..Len(pr) : ~IsEll(pr[j]) /\ LET es == FillEdges(pr[j]) IN \E i \in 1..Len(es) : es[i].x0 - Reach(pr[j]) < 0
CrossTop(pr) == \E j \in 1..Len(pr) : ~IsEll(pr[j]) /\ LET es == FillEdges(pr[j]) IN \E i \in 1..Len(es) : es[i].y1 + Reach(pr[j]) > Hpx * PX

\* ---- generator ---------------------------------------------------------------------------------------------
FScenario == LET ps == AllPaints(Ordered(gprog), 1, FALSE) \o <<>> IN
             [prog |-> gprog, res |-> FRes, wpx |-> Wpx, hpx |-> Hpx,
              paints |-> IF FMode = "prog" THEN [i \in 1..Len(ExpQueue(gprog)) |-> Brief(ExpQueue(gprog)[i])] ELSE <<>>,
              frame |-> Rows(FrameOf(ps)),
              feat |-> [openfill |-> OpenFill(gprog), left |-> CrossLeft(gprog), top |-> CrossTop(gprog), selfx |-> StrokeSelfX(gprog), posnegopen |-> PosNegOpen(gprog), grad |-> \E j \in 1..Len(gprog) : gprog[j].fill \in Grads],
              nz |-> IF RuleSensitive(gprog) THEN Rows(FrameOf(AllPaints(Ordered(gprog), 1, TRUE) \o <<>>)) ELSE <<>>]
FEmit == ~gdone /\ gdone' = TRUE /\ UNCHANGED <<gprog, vars, mprog, mlang, mtrace>> /\ PrintT("@@" \o ToJson(FScenario))
FSpec == GInit /\ [][FEmit]_mvars

\* ---- model level: properties of the frame itself ---------------------------------------------------------------
\* (1) a pixel that is `in` for a paint is never `out` for the same paint with a larger margin (monotone), trivially by construction;
\* (2) NonZero = Positive or Negative, EvenOdd within NonZero, cell-wise on the certain pixels of single fills;
\* (3) with an opaque fill nothing outside the bounding box of the path (+ Marg) is painted.
SingleFill(d, rule, s) == FillClass(FillContours(d), FillEdges(d), rule, s)
FrameLaws == gdone => \A j \in 1..Len(gprog) : LET d == gprog[j] IN (HasFill(d) /\ ~IsEll(d)) =>
    \A i \in 0..(Wpx - 1), r \in 0..(Hpx - 1) : LET s == Centre(i, r) c0 == SingleFill(d, 0, s) IN
        /\ (c0 = FREE_) = (SingleFill(d, 1, s) = FREE_)
        /\ (c0 # FREE_ => /\ (c0 = IN_) = (SingleFill(d, 2, s) = IN_ \/ SingleFill(d, 3, s) = IN_)
                          /\ ~(SingleFill(d, 2, s) = IN_ /\ SingleFill(d, 3, s) = IN_)
                          /\ (SingleFill(d, 1, s) = IN_ => c0 = IN_))
=============================================================================
