------------------------------ MODULE PathText ------------------------------
(* Textual path formats (path.go ParseSVGPath / String / ToSVG / ToPDF / ToPS, svg.go ParseSVG), property C11. *)
(*                                                                                                              *)
(* (b) PARSING AS A GRAMMAR.  The SVG path-data grammar (SVG 1.1 section 8.3.9) as a generator: a string is      *)
(* built character by character from command letters (both cases), implicit repetition of the previous          *)
(* command (LineTo after MoveTo), numbers from a token set and every separator the grammar allows (blank,        *)
(* comma, newline, nothing before a sign, nothing between ".5.5", nothing after an arc flag).  Together with     *)
(* the string the spec computes what it MEANS: the absolute builder history (current point, sub-path start,      *)
(* reflected control points of S and T, relative offsets) in exact integer arithmetic, all lengths scaled by     *)
(* Scale = 20 so that .5, 1.5e-1 ... are integers.  The real parser must accept the string and return a path     *)
(* whose decoded stream is judged equal to that history by Trace_Builder (the C10 judge).                        *)
(*                                                                                                              *)
(* (c) ROBUSTNESS.  Profile "fuzz" enumerates every string over the symbol alphabet Sym up to a length; every    *)
(* emitted string stands for itself and its one-symbol extensions (the driver appends each symbol of the         *)
(* emitted alphabet).  Grammatical strings are also emitted with their mutations (Mutations).  For documents     *)
(* (ParseSVG) profile "doc" enumerates token-level mutations of small SVG documents.  The only expectation is    *)
(* the property's: (result, nil) or (nil, error) within the watchdog, never a panic.                             *)
(*                                                                                                              *)
(* (a) PRINTING uses the histories of module Builder; the rules of comparison are constants here (Precision,     *)
(* the tolerance classes) and are printed in the header so that the driver takes them from the spec.             *)
EXTENDS Builder

CONSTANTS TextProfile,   \* "grammar-small" | "grammar" | "fuzz" | "doc"
          MaxChars       \* bound on the string length (grammar) / exact enumeration length (fuzz)

VARIABLES str,    \* the string so far: sequence of one-character strings
          ph,     \* "cmd": a command may start | "arg": inside an argument set
          cmd,    \* command letter being filled
          acc,    \* argument values collected so far
          lastk,  \* kind of the last thing written: "letter" | "int" | "dot" (number containing . or e) | "flag" | "none"
          p0, sp, \* current point, start of the current sub-path (scaled)
          lc, lq, \* last cubic / quadratic control point
          prev    \* previous command letter ("" at the start)
tvars2 == <<st, hist, str, ph, cmd, acc, lastk, p0, sp, lc, lq, prev>>

Scale == 20
\* number tokens: characters, value * Scale, does it contain '.' or an exponent, first character class
NumToks == {
  [s |-> <<"0">>, v |-> 0, dot |-> FALSE, lead |-> "digit"],
  [s |-> <<"1">>, v |-> 20, dot |-> FALSE, lead |-> "digit"],
  [s |-> <<"-", "1">>, v |-> -20, dot |-> FALSE, lead |-> "sign"],
  [s |-> <<".", "5">>, v |-> 10, dot |-> TRUE, lead |-> "dot"],
  [s |-> <<"1", "e", "1">>, v |-> 200, dot |-> TRUE, lead |-> "digit"],
  [s |-> <<"+", "2">>, v |-> 40, dot |-> FALSE, lead |-> "sign"],
  [s |-> <<"1", ".", "5", "e", "-", "1">>, v |-> 3, dot |-> TRUE, lead |-> "digit"] }
SmallToks == {t \in NumToks : t.v \in {0, 20, -20, 10}}
\* rotation of an arc: degrees, not scaled
RotToks == {
  [s |-> <<"0">>, v |-> 0, dot |-> FALSE, lead |-> "digit"],
  [s |-> <<"9", "e", "1">>, v |-> 90, dot |-> TRUE, lead |-> "digit"],
  [s |-> <<"4", "5">>, v |-> 45, dot |-> FALSE, lead |-> "digit"],
  [s |-> <<"-", "9", "e", "1">>, v |-> -90, dot |-> TRUE, lead |-> "sign"] }
RadToks == {t \in NumToks : t.v \in {0, 20, 10, 40, -20}}       \* keeps Builder!Lam2 inside 32 bits
FlagToks == {[s |-> <<"0">>, v |-> 0, dot |-> FALSE, lead |-> "flag"], [s |-> <<"1">>, v |-> 1, dot |-> FALSE, lead |-> "flag"]}

Letters == {"M", "m", "Z", "z", "L", "l", "H", "h", "V", "v", "C", "c", "S", "s", "Q", "q", "T", "t", "A", "a"}
Upper(c) == CASE c = "m" -> "M" [] c = "z" -> "Z" [] c = "l" -> "L" [] c = "h" -> "H" [] c = "v" -> "V" [] c = "c" -> "C"
              [] c = "s" -> "S" [] c = "q" -> "Q" [] c = "t" -> "T" [] c = "a" -> "A" [] OTHER -> c
IsRel(c) == Upper(c) # c
NArgs(c) == CASE Upper(c) = "M" -> 2 [] Upper(c) = "Z" -> 0 [] Upper(c) = "L" -> 2 [] Upper(c) = "H" -> 1 [] Upper(c) = "V" -> 1
              [] Upper(c) = "C" -> 6 [] Upper(c) = "S" -> 4 [] Upper(c) = "Q" -> 4 [] Upper(c) = "T" -> 2 [] Upper(c) = "A" -> 7

\* separators the grammar allows in front of token t after the previous item (lastk)
Blank == {<<" ">>, <<"\n">>}
CommaWsp == {<<",">>, <<" ", ",">>, <<",", " ">>, <<" ">>}
Seps(t) ==
  CASE lastk = "letter" -> {<<>>} \cup Blank
    [] t.lead = "flag" /\ lastk \in {"int", "dot"} -> CommaWsp               \* a separator is required before the first flag
    [] lastk = "flag" -> {<<>>} \cup CommaWsp                                 \* nothing is needed after a flag
    [] t.lead = "sign" -> {<<>>} \cup CommaWsp                                \* "1-1" = 1, -1
    [] t.lead = "dot" /\ lastk = "dot" -> {<<>>} \cup CommaWsp                \* ".5.5" = .5, .5 ; "1e1.5" = 10, .5
    [] OTHER -> CommaWsp
SmallSeps(t) == IF <<>> \in Seps(t) THEN {<<>>, <<" ">>} ELSE {<<" ">>, <<",">>}

\* "grammar-chain": only curve commands and their shorthands, so that chains Q T T T / C S S / t t / s s and shorthands
\* after a non-curve command (the reflection degenerates to the current point) fill the random traces
Chain == TextProfile = "grammar-chain"
Small == TextProfile \in {"grammar-small", "grammar-chain"}
ToksAt(c, k) ==        \* tokens allowed as the k-th argument of command c
  IF Upper(c) = "A" THEN (CASE k \in {1, 2} -> (IF Small THEN {t \in RadToks : t.v \in {20, 10, 0}} ELSE RadToks)
                             [] k = 3 -> (IF Small THEN {t \in RotToks : t.v \in {0, 90}} ELSE RotToks)
                             [] k \in {4, 5} -> FlagToks
                             [] OTHER -> SmallToks)
  ELSE IF Small THEN SmallToks ELSE NumToks

\* ---- meaning of a completed command (SVG semantics) ----------------------------------------------
Pt2(x, y) == <<x, y>>
AddP(a, b) == <<a[1] + b[1], a[2] + b[2]>>
Refl(p, c) == <<2 * p[1] - c[1], 2 * p[2] - c[2]>>
Off(c) == IF IsRel(c) THEN p0 ELSE <<0, 0>>
\* result: [call, p1, lc, lq, sp]
Meaning1(c, a) ==
  LET o == Off(c) U == Upper(c) IN
  CASE U = "M" -> LET p == AddP(o, Pt2(a[1], a[2])) IN [call |-> Call("MoveTo", p), p1 |-> p, sp |-> p, lc |-> p, lq |-> p]
    [] U = "Z" -> [call |-> Call("Close", <<>>), p1 |-> sp, sp |-> sp, lc |-> sp, lq |-> sp]
    [] U = "L" -> LET p == AddP(o, Pt2(a[1], a[2])) IN [call |-> Call("LineTo", p), p1 |-> p, sp |-> sp, lc |-> p, lq |-> p]
    [] U = "H" -> LET p == Pt2(o[1] + a[1], p0[2]) IN [call |-> Call("LineTo", p), p1 |-> p, sp |-> sp, lc |-> p, lq |-> p]
    [] U = "V" -> LET p == Pt2(p0[1], o[2] + a[1]) IN [call |-> Call("LineTo", p), p1 |-> p, sp |-> sp, lc |-> p, lq |-> p]
    [] U = "C" -> LET c1 == AddP(o, Pt2(a[1], a[2])) c2 == AddP(o, Pt2(a[3], a[4])) p == AddP(o, Pt2(a[5], a[6])) IN
                  [call |-> Call("CubeTo", c1 \o c2 \o p), p1 |-> p, sp |-> sp, lc |-> c2, lq |-> p]
    [] U = "S" -> LET c1 == IF Upper(prev) \in {"C", "S"} THEN Refl(p0, lc) ELSE p0
                      c2 == AddP(o, Pt2(a[1], a[2])) p == AddP(o, Pt2(a[3], a[4])) IN
                  [call |-> Call("CubeTo", c1 \o c2 \o p), p1 |-> p, sp |-> sp, lc |-> c2, lq |-> p]
    [] U = "Q" -> LET c1 == AddP(o, Pt2(a[1], a[2])) p == AddP(o, Pt2(a[3], a[4])) IN
                  [call |-> Call("QuadTo", c1 \o p), p1 |-> p, sp |-> sp, lc |-> p, lq |-> c1]
    [] U = "T" -> LET c1 == IF Upper(prev) \in {"Q", "T"} THEN Refl(p0, lq) ELSE p0
                      p == AddP(o, Pt2(a[1], a[2])) IN
                  [call |-> Call("QuadTo", c1 \o p), p1 |-> p, sp |-> sp, lc |-> p, lq |-> c1]
    [] U = "A" -> LET p == AddP(o, Pt2(a[6], a[7])) IN
                  [call |-> Call("ArcTo", <<a[1], a[2], a[3], a[4] + 2 * a[5], p[1], p[2]>>), p1 |-> p, sp |-> sp, lc |-> p, lq |-> p]
\* the command that an implicit repetition repeats
Repeats(c) == IF c = "M" THEN "L" ELSE IF c = "m" THEN "l" ELSE c

\* arcs: keep the exact arithmetic of Builder!Lam2 inside 32 bits
ArcInRange(c, a) == IF Upper(c) # "A" THEN TRUE
                    ELSE LET p == AddP(Off(c), Pt2(a[6], a[7])) IN Abs(p[1] - p0[1]) <= 200 /\ Abs(p[2] - p0[2]) <= 200
InRange(p) == Abs(p[1]) <= 1000 /\ Abs(p[2]) <= 1000

Finish(c, a) ==      \* the argument set is complete: apply the command
  LET r == Meaning1(c, a) IN
  /\ ArcInRange(c, a) /\ InRange(r.p1)
  /\ hist' = Append(hist, r.call)
  /\ st' = Apply(st, r.call, {})
  /\ ~st'.bad
  /\ p0' = r.p1 /\ sp' = r.sp /\ lc' = r.lc /\ lq' = r.lq
  /\ prev' = c /\ ph' = "cmd" /\ acc' = <<>>

\* ---- actions --------------------------------------------------------------------------------------
Room(n) == Len(str) + n <= MaxChars
\* a command letter (with optional blanks in front); the first command must be a moveto
Letter(c, lead) ==
  /\ ph = "cmd" /\ (prev = "" => Upper(c) = "M") /\ Room(Len(lead) + 1)
  /\ str' = str \o lead \o <<c>>
  /\ lastk' = "letter" /\ cmd' = c
  /\ IF NArgs(c) = 0 THEN Finish(c, <<>>)
     ELSE ph' = "arg" /\ acc' = <<>> /\ UNCHANGED <<st, hist, p0, sp, lc, lq, prev>>
\* one more argument: separator + token
Arg(t, sep) ==
  /\ ph = "arg" /\ Room(Len(sep) + Len(t.s))
  /\ str' = str \o sep \o t.s
  /\ lastk' = IF t.lead = "flag" THEN "flag" ELSE IF t.dot THEN "dot" ELSE "int"
  /\ IF Len(acc) + 1 = NArgs(cmd) THEN Finish(cmd, Append(acc, t.v)) /\ UNCHANGED cmd
     ELSE acc' = Append(acc, t.v) /\ UNCHANGED <<st, hist, p0, sp, lc, lq, prev, ph, cmd>>
\* implicit repetition: after a complete argument set a number starts another set of the same command
Repeat(t, sep) ==
  /\ ph = "cmd" /\ prev # "" /\ NArgs(prev) > 0 /\ Room(Len(sep) + Len(t.s))
  /\ t \in ToksAt(Repeats(prev), 1)
  /\ str' = str \o sep \o t.s
  /\ lastk' = IF t.dot THEN "dot" ELSE "int"
  /\ cmd' = Repeats(prev)
  /\ IF NArgs(prev) = 1 THEN Finish(Repeats(prev), <<t.v>>)
     ELSE ph' = "arg" /\ acc' = <<t.v>> /\ UNCHANGED <<st, hist, p0, sp, lc, lq, prev>>

LetterSet == IF Chain THEN {"M", "Q", "q", "T", "t", "C", "c", "S", "s", "l", "z"}
             ELSE IF Small THEN {"M", "m", "z", "L", "l", "h", "V", "Q", "t", "c", "S", "a", "A"} ELSE Letters
GNext ==
  \/ \E c \in LetterSet, lead \in (IF Small THEN {<<>>} ELSE {<<>>, <<" ">>}) : Letter(c, lead)
  \/ ph = "arg" /\ \E t \in ToksAt(cmd, Len(acc) + 1) : \E sep \in (IF Small THEN SmallSeps(t) ELSE Seps(t)) : Arg(t, sep)
  \/ \E t \in (IF Small THEN SmallToks ELSE NumToks) : \E sep \in (IF Small THEN SmallSeps(t) ELSE Seps(t)) : Repeat(t, sep)
GInit == /\ st = InitSt /\ hist = <<>> /\ str = <<>> /\ ph = "cmd" /\ cmd = "" /\ acc = <<>> /\ lastk = "none"
         /\ p0 = <<0, 0>> /\ sp = <<0, 0>> /\ lc = <<0, 0>> /\ lq = <<0, 0>> /\ prev = ""
GSpec == GInit /\ [][GNext]_tvars2

\* ---- mutations of a grammatical string (robustness) -------------------------------------------------
DelAt(s, i) == SubSeq(s, 1, i - 1) \o SubSeq(s, i + 1, Len(s))
DupAt(s, i) == SubSeq(s, 1, i) \o SubSeq(s, i, Len(s))
Mutations(s) == {SubSeq(s, 1, i) : i \in 0..Len(s)} \cup {DelAt(s, i) : i \in 1..Len(s)} \cup {DupAt(s, i) : i \in 1..Len(s)}

\* the grammar scenario: the string, what it means, and (complete commands only) its mutations
\* In addition every BYTE prefix of str is a robustness scenario (path data that ends in the middle of a number, before a
\* flag, after a separator ...).  The emitted states of a behaviour are the command boundaries, so the prefixes that end
\* inside the last command - the driver cuts the last PrefixWindow characters - cover every byte position of every string.
PrefixWindow == 40
GScenario == [kind |-> "grammar", cutlast |-> PrefixWindow, str |-> str, hist |-> hist, exp |-> SubsJson(NF(st.subs)), f |-> Features(hist, st),
              \* short strings, and strings that end in an arc command (truncated arcs: flags, 7 arguments)
              mut |-> IF Len(str) <= 14 \/ (Upper(prev) = "A" /\ Len(str) <= 28) THEN Mutations(str) ELSE {}]
GEmit == (ph = "cmd" /\ Len(hist) >= EmitFrom /\ EmitFrom > 0) => PrintT("@@" \o ToJson(GScenario))

\* model-level: the generator only writes strings whose commands are complete when ph = "cmd", and every
\* emitted meaning is judged "ok" against its own rendering (inherited SelfJudged)
GTypeOK == /\ ph \in {"cmd", "arg"} /\ (ph = "arg" => Len(acc) < NArgs(cmd)) /\ Len(str) <= MaxChars
           /\ (ph = "cmd" /\ hist # <<>>) => hist[1].op = "MoveTo"
GPenOK == ph = "cmd" => (IF st.mode = "fresh" THEN TRUE ELSE st.pen = p0)

\* ---- fuzz: all strings over the symbol alphabet ------------------------------------------------------
\* symbols of Sym that the parser skips as separators: a string made of these only is "only separators" (feature of #9)
SepSyms == {" ", ","}
OnlySeparators(s) == s # <<>> /\ \A i \in 1..Len(s) : s[i] \in SepSyms
Sym == <<"M", "z", "A", "1", "-", ".", "e", " ", ",", "L", "0", "h", "+", "x", "Z">>   \* both closepath letters: "Z1" and "z1" must be rejected, not repeated
FInit == /\ str = <<>> /\ st = InitSt /\ hist = <<>> /\ ph = "cmd" /\ cmd = "" /\ acc = <<>> /\ lastk = "none"
         /\ p0 = <<0, 0>> /\ sp = <<0, 0>> /\ lc = <<0, 0>> /\ lq = <<0, 0>> /\ prev = ""
FNext == /\ Len(str) < MaxChars
         /\ \E i \in 1..Len(Sym) : str' = Append(str, Sym[i])
         /\ UNCHANGED <<st, hist, ph, cmd, acc, lastk, p0, sp, lc, lq, prev>>
FSpec == FInit /\ [][FNext]_tvars2
\* every state stands for str itself and for str followed by each single symbol of Sym (ext)
FEmit == PrintT("@@" \o ToJson([kind |-> "fuzz", str |-> str, ext |-> IF Len(str) = MaxChars THEN Sym ELSE <<>>,
                                 onlysep |-> OnlySeparators(str), sepsyms |-> SepSyms]))

\* ---- documents for ParseSVG --------------------------------------------------------------------------
\* a document is a sequence of tokens; mutations delete, duplicate or truncate at token level, or replace one
\* token by a broken variant
Docs == <<
  << "<svg xmlns=\"http://www.w3.org/2000/svg\" ", "width=\"10\" ", "height=\"10\" ", "viewBox=\"0 0 10 10\"", ">",
     "<path ", "d=\"M1 1L5 1L5 5z\" ", "fill=\"red\" ", "stroke=\"#00f\" ", "stroke-width=\"0.5\"", "/>", "</svg>" >>,
  << "<svg ", "width=\"20mm\" ", "height=\"10mm\"", ">", "<g ", "transform=\"translate(1,2) rotate(30)\"", ">",
     "<rect ", "x=\"1\" ", "y=\"1\" ", "width=\"3\" ", "height=\"2\" ", "rx=\"0.5\"", "/>",
     "<circle ", "cx=\"5\" ", "cy=\"5\" ", "r=\"2\"", "/>", "</g>", "</svg>" >>,
  << "<svg ", "viewBox=\"0 0 8 8\"", ">", "<style>", "path{fill:#0f0;stroke:none}", "</style>",
     "<polygon ", "points=\"1,1 4,1 4,4\"", "/>", "<ellipse ", "cx=\"4\" ", "cy=\"4\" ", "rx=\"3\" ", "ry=\"1\"", "/>",
     "<line ", "x1=\"0\" ", "y1=\"0\" ", "x2=\"8\" ", "y2=\"8\" ", "style=\"stroke:black;stroke-dasharray:1 2\"", "/>",
     "<polyline ", "points=\"0 0 1 2 3\"", "/>", "</svg>" >>,
  << "<svg ", "width=\"10\" ", "height=\"10\"", ">", "<defs>", "<linearGradient ", "id=\"g\"", ">",
     "<stop ", "offset=\"0\" ", "stop-color=\"red\"", "/>", "<stop ", "offset=\"1\" ", "stop-color=\"blue\"", "/>", "</linearGradient>", "</defs>",
     "<path ", "d=\"M0 0H10V10z\" ", "fill=\"url(#g)\"", "/>", "</svg>" >> >>
Broken == {"", "<", ">", "\"", "width=\"", "width=\"1e\" ", "d=\"M\" ", "d=\" \" ", "d=\"M1 1A\" ", "transform=\"rotate(\" ", "points=\"1\" ",
           "viewBox=\"0 0\" ", "viewBox=\"0 0 0 0\" ", "r=\"-1\" ", "width=\"-5%\" ", "style=\"fill\" ", "fill=\"url(#nope)\" ", "fill=\"url(\" ",
           "</g>", "<svg>", "<path d=\"M0 0L1\"/>", "stroke-dasharray=\"a b\" ", "transform=\"matrix(1 2)\" ", "x=\"1ex\" ", "<style>", "<defs>",
           \* unquoted attribute values of 1, 2 and 3 bytes (the XML lexer is lenient), a value cut after its opening quote
           "x=0 ", "width=5 ", "id=a ", "x=10 ", "id=ab ", "x=100 ", "fill=red ", "x=\"", "x=\"\" ", "x=' ",
           \* paint references: well-formed, quoted, and malformed
           "fill=\"url(#g)\" ", "stroke=\"url(#g)\" ", "fill=\"url('#g')\" ", "fill=\"url(x#)\" ", "fill=\"url(#\" ", "fill=\"url()\" ",
           "fill=\"url(#)\" ", "fill=\"url('#')\" ", "fill=\"url(#g\" ", "fill=\"url#g)\" ", "stroke=\"url(x#)\" ", "fill=\"url(xx#)\" ",
           "style=\"fill:url(x#)\" ", "marker-start=\"url(x#)\" ", "clip-path=\"url(x#)\" ", "mask=\"url(#)\" "}
DocMut(d) == {SubSeq(d, 1, i) : i \in 0..Len(d)} \cup {DelAt(d, i) : i \in 1..Len(d)} \cup {DupAt(d, i) : i \in 1..Len(d)}
             \cup {[d EXCEPT ![i] = b] : i \in 1..Len(d), b \in Broken}
\* <style> selectors: 2 to 4 compounds (type or *) joined by child (>) and descendant (blank) combinators, applied to a
\* document with a rect directly under the root, a rect in a <g> and a circle two levels down - selectors that are longer
\* than the element is deep, and selectors that name the root in the middle, included
SelCompounds == {"*", "svg", "g", "rect"}
SelCombs == {">", " ", " > "}
SelOfLen(k) == {[i \in 1..(2 * k - 1) |-> IF i % 2 = 1 THEN c[(i + 1) \div 2] ELSE o[i \div 2]] :
                   c \in [1..k -> SelCompounds], o \in [1..(k - 1) -> SelCombs]}
Selectors == SelOfLen(2) \cup SelOfLen(3) \cup SelOfLen(4)
SelDoc(sel) == <<"<svg width=\"10\" height=\"10\">", "<style>">> \o sel \o
               <<"{fill:red}", "</style>", "<rect x=\"1\" y=\"1\" width=\"2\" height=\"2\"/>", "<g>",
                 "<rect width=\"1\" height=\"1\"/>", "<g>", "<circle r=\"1\"/>", "</g>", "</g>", "</svg>">>
\* colours (paint values): the lexical space of svgParser.parseColor / Hex.  "#" followed by EVERY string of 0..3 symbols over
\* ColSym (hex digits of both cases, letters that are no hex digits, blank, semicolon, a two-byte rune), the well-formed
\* strings of 4..9 hex digits and each of them with one position replaced by each non-hex symbol (so that every length the
\* decoder distinguishes - 3, 4, 6, 8 and their neighbours - occurs with a bad symbol at every position), and the
\* functional notations with missing, surplus, empty and out-of-range components.  Each colour is placed in every context
\* that reaches the colour parser: fill / stroke attributes, style="..." declarations, a <style> rule, stop-color.
ColSym == {"0", "a", "F", "g", " ", ";", "é"}
BadColSym == {"g", "z", " ", ";", "é", "-", "#", "%"}
HexBase == <<"1", "a", "F", "0", "c", "9", "E", "7", "b">>
HexShort == UNION {[1..n -> ColSym] : n \in 0..3}
HexLong == UNION {{SubSeq(HexBase, 1, n)} \cup {[SubSeq(HexBase, 1, n) EXCEPT ![i] = b] : i \in 1..n, b \in BadColSym} : n \in 4..9}
FuncCols == {<<"rgb(1,2,3)">>, <<"rgb(1,2)">>, <<"rgb(1,2,3,4)">>, <<"rgb(,,)">>, <<"rgb(300,0,-1)">>, <<"rgb(50%,x,1)">>, <<"rgb(%,1,1)">>, <<"rgb(">>, <<"rgb()">>,
             <<"rgba(1,2,3,.5)">>, <<"rgba(1,2,3)">>, <<"rgba(1,2,3,50%)">>, <<"rgba(1,2,3,%)">>, <<"rgba(,,,)">>, <<"rgba()">>, <<"RGB(1,2,3)">>,
             <<"none">>, <<"currentColor">>, <<"">>, <<"Red">>, <<"nosuchcolour">>}
Colours == {<<"#">> \o h : h \in HexShort \cup HexLong} \cup FuncCols
ColCtx == {
  [pre |-> <<"<svg width=\"10\" height=\"10\">", "<rect width=\"1\" height=\"1\" fill=\"">>, post |-> <<"\"/>", "</svg>">>],
  [pre |-> <<"<svg width=\"10\" height=\"10\">", "<path d=\"M0 0L1 1\" stroke=\"">>, post |-> <<"\"/>", "</svg>">>],
  [pre |-> <<"<svg width=\"10\" height=\"10\">", "<circle r=\"1\" style=\"stroke:">>, post |-> <<";fill:none\"/>", "</svg>">>],
  [pre |-> <<"<svg width=\"10\" height=\"10\">", "<style>", "rect{fill:">>, post |-> <<"}", "</style>", "<rect width=\"1\" height=\"1\"/>", "</svg>">>],
  [pre |-> <<"<svg width=\"10\" height=\"10\">", "<defs>", "<linearGradient id=\"g\">", "<stop offset=\"0\" stop-color=\"">>,
   post |-> <<"\"/>", "</linearGradient>", "</defs>", "<path d=\"M0 0H10V10z\" fill=\"url(#g)\"/>", "</svg>">>] }
ColDocs == {x.pre \o col \o x.post : x \in ColCtx, col \in Colours}
\* (the document index is kept in acc so that the module needs no further variable; index Len(Docs)+1 = the selector family,
\* Len(Docs)+2 = the colour family)
DInit == /\ acc \in {<<i>> : i \in 1..(Len(Docs) + 2)}
         /\ str = <<>> /\ st = InitSt /\ hist = <<>> /\ ph = "cmd" /\ cmd = "" /\ lastk = "none"
         /\ p0 = <<0, 0>> /\ sp = <<0, 0>> /\ lc = <<0, 0>> /\ lq = <<0, 0>> /\ prev = ""
DNext == UNCHANGED tvars2
DSpec == DInit /\ [][DNext]_tvars2
\* orig: the unmutated document; every BYTE prefix of its concatenation is a scenario too (the driver cuts them: TLA+ has
\* no access to the characters of a string), so that every byte position of the four documents is a truncation point
DEmit == PrintT("@@" \o ToJson([kind |-> "doc", doc |-> acc[1],
                                 orig |-> IF acc[1] <= Len(Docs) THEN Docs[acc[1]] ELSE <<>>,
                                 muts |-> IF acc[1] <= Len(Docs) THEN DocMut(Docs[acc[1]])
                                          ELSE IF acc[1] = Len(Docs) + 1 THEN {SelDoc(sel) : sel \in Selectors} ELSE ColDocs]))

\* ---- printing: rules of comparison (header for the driver) -------------------------------------------
Precision == 8     \* canvas.Precision (default): significant digits (ToSVG) / decimals (ToPDF, ToPS)
\* "to the CONFIGURED output precision": canvas.Precision is a run-time setting.  The printing checks are repeated with the
\* setting changed (after package initialisation) to each of AltPrecisions - below and above the default; every tolerance
\* is the same function of the configured value, so a printer that keeps using another precision than the configured one
\* (too few digits) leaves the tolerance of the larger settings.
AltPrecisions == {5, 10, 12}
TextHeaderAt(P) == [hdr |-> TRUE, precision |-> P,
               \* tolerances as negative powers of ten relative to the largest coordinate magnitude (at least 1):
               tolExp |-> P - 1,            \* 10^(1-Precision): printed coordinates
               tolArcMinExp |-> (P - 1) \div 2,   \* ArcRadiiMinimal: centre is ill-conditioned, sqrt of the above
               tolArcCubicMilli |-> 2,              \* ToPDF replaces arcs by cubic Beziers: 2/1000 of the larger radius
               stringEqualsExp |-> 9]               \* "equals p": 1e-9 relative (Equals uses Epsilon = 1e-10 absolute)
TextHeader == TextHeaderAt(Precision)
THdrInv == (str = <<>>) => /\ PrintT("@@" \o ToJson(TextHeader))
                           /\ PrintT("@@" \o ToJson([althdrs |-> {TextHeaderAt(P) : P \in AltPrecisions}]))
=============================================================================
