------------------------------- MODULE PDFDoc -------------------------------
(* Property C13: every PDF produced by renderers/pdf is a structurally valid PDF file.              *)
(*                                                                                                  *)
(* Part A - the document-building protocol of the writer (pdf.New, RenderPath/Image/Text, AddLink,  *)
(*   NewPage, SetInfo/SetLang, Close) as a state machine over object numbers: numbers 1..3 are       *)
(*   reserved for catalog / info / page tree and written at Close, fonts reserve a number at first  *)
(*   use and are written at Close (with their ToUnicode / font file / CIDToGIDMap streams), images  *)
(*   are written when first drawn and shared between pages, every page writes its content stream    *)
(*   and page object when it is finished.  TLC checks the design-level invariants (every allocated  *)
(*   number defined exactly once at Close, offsets table = objects, page tree = pages, resources    *)
(*   cover the names used) and GENERATES the document programs (scenarios).                         *)
(* Part B - validity predicates over the record an independent reader extracts from the produced    *)
(*   bytes (harness/internal/oracle/pdfread.go).  They are the property; Trace_PDFDoc evaluates     *)
(*   them on every produced document together with the request (InfoVerbatim).  Every predicate P   *)
(*   is defined as PDiag(..) = {} where PDiag returns the set of deviation signatures, so that a    *)
(*   rejection names what fails.                                                                    *)
EXTENDS Integers, Sequences, FiniteSets, TLC, Json, Randomization

CONSTANTS L,        \* number of call slots of a document program
          Gen,      \* "all"/"all1": every program | "random": NRand random programs | "info": metadata sweep | "far" | "std" | "cover": glyph coverage | "mc" | "trace"
          Alpha,    \* "small" | "full" call alphabet
          NRand

Range(s) == {s[i] : i \in 1..Len(s)}
Max(S) == CHOOSE v \in S : \A w \in S : w <= v
RECURSIVE SumSeq(_)
SumSeq(s) == IF s = <<>> THEN 0 ELSE Head(s) + SumSeq(Tail(s))

(***************************************************************************************************)
(* Part A: the protocol                                                                            *)
(***************************************************************************************************)
\* A call is a uniform record [k, a, b, c, d]:
\*   path    a = fill (0 none, 1 red, 2 red alpha 1/2, 3 linear gradient, 4 radial gradient, 5 linear gradient with three stops)
\*           b = stroke (0 none, 1 blue, 2 blue alpha 1/2)   c = fill rule (0 NonZero, 1 EvenOdd)   d = closed
\*   image   a = image (1 opaque, 2 and 3 with alpha => SMask)   b = encoding (0 lossless, 1 lossy/DCT)
\*           c = 1: drawn under a singular matrix (x scale 0: the transformed image has no width)
\*   text    a = font (1 TrueType "A", 2 CFF "B", 3 standard Type1 "Helvetica")  b = string (1, 2 plain; 3..8 with ( ) \ ; 9: exactly 296 distinct glyphs, so that the last
\*           two-byte code is 0x0128 whose low byte is "(" ;  10, 11: glyph COVERAGE of the string by the selected font -
\*           10 = no character is covered (U+4E2D U+6587: every glyph shown is .notdef, glyph 0), 11 = mixed ("A" + U+4E2D);
\*           1..9 are fully covered)  c = vertical
\*           The protocol does not depend on b: a font selected by a text call reserves its number at first use and is
\*           written at Close whatever glyphs were shown with it (Exec / Close below never look at c.b), so the number
\*           in the page's /Font resources always resolves - also for a font of which only .notdef is shown.
\*   link    a = uri class       newpage / skip: no arguments
Call(k, a, b, c, d) == [k |-> k, a |-> a, b |-> b, c |-> c, d |-> d]
Skip == Call("skip", 0, 0, 0, 0)
\* view: from here on every element is placed about 3e9 units from the origin (a = 1: +3000000000.5, a = 2: -3000000000.25) and
\* new pages are 800000000.5 mm wide, so that coordinates, matrices, rectangles and the MediaBox hold non-integral numbers
\* beyond the 32-bit range (the number syntax of 7.3.3 must still be met).  Writes no object.
View(a) == Call("view", a, 0, 0, 0)
NewPageC == Call("newpage", 0, 0, 0, 0)

SmallCalls ==
  { Call("path", 1, 0, 0, 1),      \* opaque fill
    Call("path", 2, 0, 1, 1),      \* alpha fill, EvenOdd   (f*, ExtGState)
    Call("path", 0, 1, 1, 1),      \* stroke only, EvenOdd, closed
    Call("path", 0, 2, 0, 0),      \* stroke only with alpha, open
    Call("path", 1, 2, 1, 0),      \* fill and stroke with different alpha, EvenOdd, open
    Call("path", 3, 1, 0, 1),      \* gradient fill + stroke (Pattern resource)
    Call("path", 5, 0, 0, 1),      \* gradient with three stops (stitching function)
    Call("image", 1, 0, 0, 0), Call("image", 2, 0, 0, 0),
    Call("text", 1, 1, 0, 0), Call("text", 2, 1, 0, 0), Call("text", 3, 1, 0, 0), Call("text", 1, 2, 1, 0),
    Call("link", 1, 0, 0, 0),
    NewPageC }
FullCalls ==
  LET paths == {Call("path", f, s, r, c) : f \in 0..4, s \in 0..2, r \in 0..1, c \in 0..1}
  IN {p \in paths : p.a # 0 \/ p.b # 0}
     \cup {Call("image", i, e, sg, 0) : i \in 1..3, e \in 0..1, sg \in 0..1}
     \cup {Call("text", f, s, 0, 0) : f \in 1..2, s \in 1..2} \cup {Call("text", f, 2, 1, 0) : f \in 1..2}
     \cup {Call("text", 3, s, 0, 0) : s \in 1..8}      \* standard font: also the strings with parentheses and backslash
     \cup {Call("text", f, s, v, 0) : f \in 1..2, s \in 10..11, v \in 0..1}   \* strings the embedded font covers not at all / partly
     \cup {Call("link", u, 0, 0, 0) : u \in 1..2}
     \cup {NewPageC} \cup {View(1), View(2)}
Calls == IF Alpha = "small" THEN SmallCalls ELSE FullCalls

\* ---- metadata request --------------------------------------------------------------------------
\* classes of text; the concrete code points are fixed HERE, the driver only turns them into a Go string
Classes == {"empty", "ascii", "esc", "latin1", "bmpcr", "bmpparen", "bmpbs", "crlf", "astral", "astralcr", "ctl"}
Base(c) == CASE c = "empty"    -> <<>>
             [] c = "ascii"    -> <<68, 111, 99>>            \* Doc
             [] c = "esc"      -> <<41, 40, 97, 92>>         \* )(a\      unbalanced parentheses, backslash
             [] c = "latin1"   -> <<233, 252>>               \* e-acute u-diaeresis
             [] c = "bmpcr"    -> <<269>>                    \* U+010D : UTF-16BE bytes 01 0D
             [] c = "bmpparen" -> <<296, 297>>               \* U+0128 U+0129 : 01 28 01 29
             [] c = "bmpbs"    -> <<348>>                    \* U+015C : 01 5C
             [] c = "crlf"     -> <<3338>>                   \* U+0D0A : 0D 0A
             [] c = "astral"   -> <<128512>>                 \* U+1F600 : D8 3D DE 00
             [] c = "astralcr" -> <<66317>>                  \* U+1030D : D8 00 DF 0D
             [] c = "ctl"      -> <<97, 13, 98>>             \* a CR b
Fields == <<"title", "subject", "keywords", "author", "creator">>
Letter(f) == CASE f = "title" -> 84 [] f = "subject" -> 83 [] f = "keywords" -> 75 [] f = "author" -> 65 [] f = "creator" -> 67
\* every field gets its own last letter so that a value stored under the wrong key is noticed
Value(f, c) == IF c = "empty" THEN <<>> ELSE Base(c) \o <<Letter(f)>>
LangClasses == {"none", "nl", "enUS"}
LangValue(c) == CASE c = "none" -> <<>> [] c = "nl" -> <<110, 108>> [] c = "enUS" -> <<101, 110, 45, 85, 83>>

Profile(t, s, k, a, c, l) == [title |-> t, subject |-> s, keywords |-> k, author |-> a, creator |-> c, lang |-> l]
Mixed == Profile("esc", "latin1", "empty", "bmpparen", "ascii", "none")
InfoSweep == {Profile(t, o, o, o, c, l) : t \in Classes, o \in Classes, c \in {"empty", "ascii", "bmpcr"}, l \in LangClasses}
AllProfiles == [title : Classes, subject : Classes, keywords : Classes, author : Classes, creator : Classes, lang : LangClasses]
\* the request as code points (this is what InfoVerbatim compares with)
Request(p) == [title |-> Value("title", p.title), subject |-> Value("subject", p.subject), keywords |-> Value("keywords", p.keywords),
               author |-> Value("author", p.author), creator |-> Value("creator", p.creator), lang |-> LangValue(p.lang)]

\* ---- state ---------------------------------------------------------------------------------------
VARIABLES opts,     \* [compress, subset]
          prog,     \* [1..L -> Calls \cup {Skip}]
          info,     \* profile
          infoAt,   \* 0: SetInfo/SetLang right after New, 1: just before Close
          pc,       \* next slot; L+1: ready to close; L+2: closed
          nobj,     \* object numbers 1..nobj are allocated
          defs,     \* objects written so far, file order: [n, kind]
          offs,     \* the writer's offset table: offs[n] = index into defs, 0 while only reserved
          wrote,    \* per executed call (and Close): the objects it wrote
          pg,       \* current page: [fonts: refs in resource order, xobj: refs per draw, annots, useF, useX: indices used by content]
          done,     \* finished pages: [n, nfont, nxobj, annots]
          fH, fV, fS,  \* fonts with a number: sequences of [key, ref]  (horizontal / vertical / standard)
          ims       \* embedded images [key, ref]
scen == <<opts, prog, info, infoAt>>
mach == <<pc, nobj, defs, offs, wrote, pg, done, fH, fV, fS, ims>>
vars == <<opts, prog, info, infoAt, pc, nobj, defs, offs, wrote, pg, done, fH, fV, fS, ims>>

D(n, kind) == [n |-> n, kind |-> kind]
Find(tab, key) == IF \E i \in 1..Len(tab) : tab[i].key = key
                  THEN tab[CHOOSE i \in 1..Len(tab) : tab[i].key = key].ref ELSE 0
IndexOf(s, v) == IF \E i \in 1..Len(s) : s[i] = v THEN CHOOSE i \in 1..Len(s) : s[i] = v ELSE 0
EmptyPage == [fonts |-> <<>>, xobj |-> <<>>, annots |-> 0, useF |-> {}, useX |-> {}]
HasAlpha(img) == img \in {2, 3}

\* writing objects ws (a sequence of [n, kind]) appends to the file and records the offsets; numbers above nobj are new
Write(ws, newN) ==
    /\ defs' = defs \o ws
    /\ nobj' = newN
    /\ offs' = [n \in 1..newN |->
                  IF \E i \in 1..Len(ws) : ws[i].n = n
                  THEN Len(defs) + (CHOOSE i \in 1..Len(ws) : ws[i].n = n)
                  ELSE IF n <= nobj THEN offs[n] ELSE 0]
    /\ wrote' = Append(wrote, ws)
NoWrite == UNCHANGED <<defs, nobj, offs>> /\ wrote' = Append(wrote, <<>>)
Reserve == /\ UNCHANGED defs /\ nobj' = nobj + 1 /\ offs' = Append(offs, 0) /\ wrote' = Append(wrote, <<>>)

UseFont(ref) ==   \* SetFont: an existing resource name for the same reference is re-used
    LET i == IndexOf(pg.fonts, ref) IN
    IF i # 0 THEN [pg EXCEPT !.useF = @ \cup {i}]
    ELSE [pg EXCEPT !.fonts = Append(@, ref), !.useF = @ \cup {Len(pg.fonts) + 1}]
UseImage(ref) == [pg EXCEPT !.xobj = Append(@, ref), !.useX = @ \cup {Len(pg.xobj) + 1}]   \* one name per draw

PageObjs == <<D(nobj + 1, "stream"), D(nobj + 2, "Page")>>
Finished == [n |-> nobj + 2, nfont |-> Len(pg.fonts), nxobj |-> Len(pg.xobj), annots |-> pg.annots,
             covered |-> pg.useF \subseteq 1..Len(pg.fonts) /\ pg.useX \subseteq 1..Len(pg.xobj)]

Exec(c) ==
  CASE c.k \in {"path", "skip", "view"} -> NoWrite /\ UNCHANGED <<pg, done, fH, fV, fS, ims>>
    [] c.k = "link" -> NoWrite /\ pg' = [pg EXCEPT !.annots = @ + 1] /\ UNCHANGED <<done, fH, fV, fS, ims>>
    [] c.k = "image" ->
         LET r == Find(ims, c.a) IN
         IF r # 0 THEN NoWrite /\ pg' = UseImage(r) /\ UNCHANGED <<done, fH, fV, fS, ims>>
         ELSE LET ws == IF HasAlpha(c.a) THEN <<D(nobj + 1, "XObject"), D(nobj + 2, "XObject")>> ELSE <<D(nobj + 1, "XObject")>>
                  ref == nobj + Len(ws) IN
              /\ Write(ws, ref) /\ ims' = Append(ims, [key |-> c.a, ref |-> ref]) /\ pg' = UseImage(ref)
              /\ UNCHANGED <<done, fH, fV, fS>>
    [] c.k = "text" ->
         IF c.a = 3 THEN   \* one of the 14 standard fonts: a small dictionary written immediately
            LET r == Find(fS, c.a) IN
            IF r # 0 THEN NoWrite /\ pg' = UseFont(r) /\ UNCHANGED <<done, fH, fV, fS, ims>>
            ELSE /\ Write(<<D(nobj + 1, "Font")>>, nobj + 1) /\ fS' = Append(fS, [key |-> c.a, ref |-> nobj + 1])
                 /\ pg' = UseFont(nobj + 1) /\ UNCHANGED <<done, fH, fV, ims>>
         ELSE IF c.c = 0 THEN
            LET r == Find(fH, c.a) IN
            IF r # 0 THEN NoWrite /\ pg' = UseFont(r) /\ UNCHANGED <<done, fH, fV, fS, ims>>
            ELSE /\ Reserve /\ fH' = Append(fH, [key |-> c.a, ref |-> nobj + 1]) /\ pg' = UseFont(nobj + 1)
                 /\ UNCHANGED <<done, fV, fS, ims>>
         ELSE
            LET r == Find(fV, c.a) IN
            IF r # 0 THEN NoWrite /\ pg' = UseFont(r) /\ UNCHANGED <<done, fH, fV, fS, ims>>
            ELSE /\ Reserve /\ fV' = Append(fV, [key |-> c.a, ref |-> nobj + 1]) /\ pg' = UseFont(nobj + 1)
                 /\ UNCHANGED <<done, fH, fS, ims>>
    [] c.k = "newpage" -> /\ Write(PageObjs, nobj + 2) /\ done' = Append(done, Finished) /\ pg' = EmptyPage
                          /\ UNCHANGED <<fH, fV, fS, ims>>

PL == Len(prog)
StepK(kinds) == /\ pc <= PL /\ prog[pc].k \in kinds /\ Exec(prog[pc]) /\ pc' = pc + 1 /\ UNCHANGED scen
\* one named action per kind of call (so that -coverage shows that none is vacuous)
DoPath == StepK({"path", "skip", "view"})
DoLink == StepK({"link"})
DoImageNew == StepK({"image"}) /\ Find(ims, prog[pc].a) = 0
DoImageShared == StepK({"image"}) /\ Find(ims, prog[pc].a) # 0
DoTextStd == StepK({"text"}) /\ prog[pc].a = 3
DoTextH == StepK({"text"}) /\ prog[pc].a # 3 /\ prog[pc].c = 0
DoTextV == StepK({"text"}) /\ prog[pc].a # 3 /\ prog[pc].c = 1
DoNewPage == StepK({"newpage"})
Step == DoPath \/ DoLink \/ DoImageNew \/ DoImageShared \/ DoTextStd \/ DoTextH \/ DoTextV \/ DoNewPage

\* the objects of the embedded fonts, written at Close in the order of their reserved numbers (H first, then V)
RECURSIVE FontObjs(_, _)
FontObjs(tab, n) ==   \* n: highest number allocated so far
    IF tab = <<>> THEN <<>>
    ELSE LET k == IF opts.subset THEN 2 ELSE 3      \* ToUnicode, font file, (CIDToGIDMap when not subsetting)
             aux == [i \in 1..k |-> D(n + i, "stream")]
         IN aux \o <<D(Head(tab).ref, "Font")>> \o FontObjs(Tail(tab), n + k)
NFontAux(tab) == Len(tab) * (IF opts.subset THEN 2 ELSE 3)

Close == /\ pc = PL + 1 /\ pc' = PL + 2
         /\ LET n1 == nobj + 2
                fo == FontObjs(fH \o fV, n1)
                n2 == n1 + NFontAux(fH \o fV)
            IN Write(PageObjs \o fo \o <<D(1, "Catalog"), D(2, "dict"), D(3, "Pages")>>, n2)
         /\ done' = Append(done, Finished) /\ pg' = EmptyPage
         /\ UNCHANGED <<fH, fV, fS, ims>> /\ UNCHANGED scen

Machine0 == /\ pc = 1 /\ nobj = 3 /\ defs = <<>> /\ offs = <<0, 0, 0>> /\ wrote = <<>> /\ pg = EmptyPage /\ done = <<>>
            /\ fH = <<>> /\ fV = <<>> /\ fS = <<>> /\ ims = <<>>

\* canonical programs: skips only at the end
Canonical(p) == \A i \in 1..(L - 1) : p[i] = Skip => p[i + 1] = Skip
Progs == [1..L -> Calls \cup {Skip}]
OneTrue(b) == [compress |-> b, subset |-> TRUE]
Init ==
  /\ Machine0
  /\ CASE Gen = "all" ->    /\ prog \in {p \in Progs : Canonical(p)}
                            /\ opts \in [compress : BOOLEAN, subset : BOOLEAN] /\ info = Mixed /\ infoAt \in {0}
       [] Gen = "all1" ->   /\ prog \in {p \in Progs : Canonical(p)}      \* default options only
                            /\ opts = [compress |-> TRUE, subset |-> TRUE] /\ info = Mixed /\ infoAt = 0
       [] Gen = "random" -> /\ prog \in RandomSubset(NRand, Progs)
                            /\ opts \in [compress : BOOLEAN, subset : BOOLEAN]
                            /\ info \in RandomSubset(2, AllProfiles) /\ infoAt \in {0, 1}
       [] Gen = "far" ->    \* huge coordinates: every call of the small alphabet after a view change, then nothing / a link / a new page
                            /\ prog \in {<<View(a), c, b>> : a \in 1..2, c \in SmallCalls, b \in {Skip, Call("link", 1, 0, 0, 0), NewPageC}}
                            /\ opts \in {[compress |-> TRUE, subset |-> TRUE], [compress |-> FALSE, subset |-> FALSE]} /\ info = Mixed /\ infoAt = 0
       [] Gen = "std" ->    \* text in a standard (not embedded, WinAnsi literal strings) font: strings 3..8 are a(b  a)b  a\b  (x)
                            \* "1) item :-("  "[0, 1)" - unbalanced / balanced parentheses and a backslash inside a shown string
                            /\ prog \in {<<a, Call("text", 3, t, 0, 0), b>> : a \in {Call("path", 1, 0, 0, 1), Call("text", 1, 1, 0, 0), Call("text", 3, 1, 0, 0)},
                                                                             t \in 3..8, b \in {Skip, Call("text", 3, 2, 0, 0), NewPageC}}
                                  \* images drawn under a singular matrix (q/Q must stay balanced)
                                  \cup {<<a, Call("image", i, e, 1, 0), b>> : a \in {Call("path", 1, 0, 0, 1), Call("image", 2, 0, 0, 0)}, i \in 1..2, e \in 0..1,
                                                                            b \in {Skip, Call("text", 1, 1, 0, 0), NewPageC}}
                                  \* a text with exactly 296 distinct glyphs of the embedded TrueType font
                                  \cup {<<Call("text", 1, 9, 0, 0), b, Skip>> : b \in {Skip, Call("text", 1, 1, 0, 0), NewPageC}}
                            /\ opts \in {OneTrue(TRUE), OneTrue(FALSE)} /\ info = Mixed /\ infoAt = 0
       [] Gen = "cover" ->  \* glyph coverage: a text of which the selected embedded font covers nothing (10) or only a part (11),
                            \* alone on its page or document, next to another font, and with / without a covered text in the
                            \* SAME font before or after it (same page or another page), horizontal and vertical, all option sets
                            /\ prog \in {<<a, Call("text", f, s, v, 0), b>> :
                                            a \in {Call("path", 1, 0, 0, 1), Call("text", 1, 1, 0, 0), Call("text", 2, 1, 0, 0), NewPageC},
                                            f \in 1..2, s \in 10..11, v \in 0..1,
                                            b \in {Skip, Call("text", 1, 2, 0, 0), Call("text", 3, 1, 0, 0), NewPageC}}
                                  \cup {<<Call("text", f, 10, 0, 0), NewPageC, Call("text", g, s, v, 0)>> : f \in 1..2, g \in 1..2, s \in {1, 10}, v \in 0..1}
                            /\ opts \in [compress : BOOLEAN, subset : BOOLEAN] /\ info = Mixed /\ infoAt = 0
       [] Gen = "info" ->   /\ prog = [i \in 1..L |-> IF i = 1 THEN Call("path", 1, 0, 0, 1) ELSE Skip]
                            /\ opts \in (IF NRand = 0 THEN {OneTrue(TRUE)} ELSE {OneTrue(TRUE), OneTrue(FALSE)})
                            /\ info \in InfoSweep /\ infoAt \in {0, 1}
       [] OTHER ->          /\ prog \in {p \in Progs : Canonical(p)} /\ opts \in {OneTrue(TRUE)} /\ info = Mixed /\ infoAt = 0
Next == DoPath \/ DoLink \/ DoImageNew \/ DoImageShared \/ DoTextStd \/ DoTextH \/ DoTextV \/ DoNewPage \/ Close
Spec == Init /\ [][Next]_vars

\* ---- what TLC prints: the scenario with the request in code points and the model's prediction --------
NPagesOf(p) == 1 + Cardinality({i \in 1..Len(p) : p[i].k = "newpage"})
Scenario == [opts |-> opts, prog |-> prog, info |-> info, infoAt |-> infoAt, req |-> Request(info),
             npages |-> Len(done), nobj |-> nobj]
EmitInv == (Gen # "trace" /\ pc = PL + 2) => PrintT("@@" \o ToJson(Scenario))

\* ---- design-level invariants (model checking) -------------------------------------------------------
Nums == {defs[i].n : i \in 1..Len(defs)}
TypeOK == /\ pc \in 1..(PL + 2) /\ nobj >= 3 /\ Len(offs) = nobj
          /\ \A i \in 1..Len(defs) : defs[i].n \in 1..nobj
\* no object number is ever written twice
DefinedAtMostOnce == \A i, j \in 1..Len(defs) : i # j => defs[i].n # defs[j].n
\* reserved numbers (1..3 and embedded fonts) stay undefined until Close, everything else is defined when allocated
ReservedUntilClose == pc <= PL + 1 =>
    LET reserved == {1, 2, 3} \cup {fH[i].ref : i \in 1..Len(fH)} \cup {fV[i].ref : i \in 1..Len(fV)}
    IN Nums = (1..nobj) \ reserved
\* at Close every allocated number is defined exactly once and the offset table points at it
AllDefinedAtClose == pc = PL + 2 => /\ Nums = 1..nobj /\ Len(defs) = nobj
                                   /\ \A n \in 1..nobj : offs[n] \in 1..Len(defs) /\ defs[offs[n]].n = n
\* the offset table never points at a different object
OffsetsConsistent == \A n \in 1..nobj : offs[n] # 0 => (offs[n] \in 1..Len(defs) /\ defs[offs[n]].n = n)
\* the page tree has one kid per page and every kid is a page object
PageTreeModel == pc = PL + 2 => /\ Len(done) = NPagesOf(prog)
                               /\ \A i \in 1..Len(done) : \E j \in 1..Len(defs) : defs[j] = D(done[i].n, "Page")
\* every name a content stream uses is in the resources of its own page (also for images embedded on an earlier page)
ResourcesCover == /\ \A i \in 1..Len(done) : done[i].covered
                  /\ pg.useF \subseteq 1..Len(pg.fonts) /\ pg.useX \subseteq 1..Len(pg.xobj)
\* one reference per font and direction, per image
RefsDistinct == LET all == fH \o fV \o fS \o ims IN \A i, j \in 1..Len(all) : i # j => all[i].ref # all[j].ref
\* what each call wrote, concatenated, is the file
WroteIsFile == LET RECURSIVE Cat(_)
                   Cat(s) == IF s = <<>> THEN <<>> ELSE Head(s) \o Cat(Tail(s))
               IN Cat(wrote) = defs

(***************************************************************************************************)
(* Part B: validity of a parsed document record                                                    *)
(***************************************************************************************************)
\* The record Doc (built by harness/internal/props/c13 from oracle.ParsePDF):
\*   header, eof : BOOLEAN       startxref, xrefat : offset claimed / offset where the table really is (-1: none)
\*   xrefok : the table at startxref parsed        bodyerr : number of things in the body that are not objects
\*   sub : <<<<first, count>>>>   xref : <<[n, off, gen, use]>>      size, root, info : trailer entries (-1 missing)
\*   objs : <<[n, g, off, kind, st, len, act, dec, seol, refs, dup]>> in file order
\*   cat : [kind, pages, lang]    tree : [count, leaves, badparent, badkid, cyclic]
\*   pages : <<[n, res : [font, xobj, gs, pat, sh, cs], uses : <<[op, name]>>, ops : <<[op, n]>>, seq : <<op>>, ok,
\*             shown : <<bytes>> the decoded string operands of every TJ / Tj shown in a simple (Type1, WinAnsi) font]>>
\*   infod : [title, subject, keywords, author, creator]  byte sequences, <<-1>> when the key is absent
ObjNums(doc) == {doc.objs[i].n : i \in 1..Len(doc.objs)}
ObjOf(doc, n) == doc.objs[CHOOSE i \in 1..Len(doc.objs) : doc.objs[i].n = n]
KindOf(doc, n) == IF n \in ObjNums(doc) THEN ObjOf(doc, n).kind ELSE "missing"

HeaderTrailerDiag(doc) ==
       (IF doc.header THEN {} ELSE {"header-missing"})
  \cup (IF doc.eof THEN {} ELSE {"eof-marker-missing"})
  \cup (IF doc.startxref >= 0 /\ doc.startxref = doc.xrefat /\ doc.xrefok THEN {} ELSE {"startxref-wrong"})
  \cup (IF doc.bodyerr = 0 THEN {} ELSE {"body-garbage"})

\* the table is one section starting at 0, entry 0 is the free-list head, and in-use entries = objects of the body
XrefCompleteDiag(doc) ==
  LET used == {doc.xref[i].n : i \in {j \in 1..Len(doc.xref) : doc.xref[j].use = 1}}
      nums == ObjNums(doc)
  IN   (IF Len(doc.sub) = 1 /\ doc.sub[1][1] = 0 /\ doc.sub[1][2] = Len(doc.xref) THEN {} ELSE {"xref-subsections"})
  \cup (IF Len(doc.xref) > 0 /\ doc.xref[1].n = 0 /\ doc.xref[1].use = 0 /\ doc.xref[1].gen = 65535 THEN {} ELSE {"xref-entry0"})
  \cup (IF nums \subseteq used THEN {} ELSE {"xref-missing-object"})
  \cup (IF used \subseteq nums THEN {} ELSE {"xref-entry-without-object"})
  \cup (IF \A i, j \in 1..Len(doc.objs) : i # j => doc.objs[i].n # doc.objs[j].n THEN {} ELSE {"object-defined-twice"})
  \cup (IF \A i \in 1..Len(doc.objs) : doc.objs[i].g = 0 THEN {} ELSE {"object-generation"})
  \cup (IF \A i \in 1..Len(doc.xref) : doc.xref[i].use = 1 => doc.xref[i].gen = 0 THEN {} ELSE {"xref-generation"})
XrefComplete(doc) == XrefCompleteDiag(doc) = {}

\* every in-use entry holds the byte offset at which "n 0 obj" actually starts
OffsetsExactDiag(doc) ==
  {"offset-wrong:" \o ToString(doc.xref[i].off - ObjOf(doc, doc.xref[i].n).off) :
      i \in {j \in 1..Len(doc.xref) : /\ doc.xref[j].use = 1 /\ doc.xref[j].n \in ObjNums(doc)
                                      /\ doc.xref[j].off # ObjOf(doc, doc.xref[j].n).off}}
OffsetsExact(doc) == OffsetsExactDiag(doc) = {}

\* every indirect reference (in objects and in the trailer) names an object of the file
RefsResolveDiag(doc) ==
       {"ref-dangling-in:" \o doc.objs[i].kind : i \in {j \in 1..Len(doc.objs) : ~(Range(doc.objs[j].refs) \subseteq ObjNums(doc))}}
  \cup (IF doc.root \in ObjNums(doc) THEN {} ELSE {"trailer-root-dangling"})
  \cup (IF doc.info = -1 \/ doc.info \in ObjNums(doc) THEN {} ELSE {"trailer-info-dangling"})
RefsResolve(doc) == RefsResolveDiag(doc) = {}

\* Length = number of bytes between "stream" EOL and the EOL before "endstream"
LengthsExactDiag(doc) ==
       {"length-wrong:" \o doc.objs[i].kind : i \in {j \in 1..Len(doc.objs) : doc.objs[j].st = 1 /\ doc.objs[j].len # doc.objs[j].act}}
  \cup {"stream-keyword-eol" : i \in {j \in 1..Len(doc.objs) : doc.objs[j].st = 1 /\ ~doc.objs[j].seol}}
LengthsExact(doc) == LengthsExactDiag(doc) = {}

\* three-valued: filters the reader does not implement are "unsupported" and never count as failures
FiltersDecodeDiag(doc) ==
  {"filter-fails:" \o doc.objs[i].kind : i \in {j \in 1..Len(doc.objs) : doc.objs[j].st = 1 /\ doc.objs[j].dec = "fail"}}
FiltersDecode(doc) == FiltersDecodeDiag(doc) = {}

\* the root of the page tree counts the leaves below it; every leaf is a page whose Parent is its node;
\* every page object of the file is a leaf
PageTreeCountsDiag(doc) ==
  LET pageObjs == {n \in ObjNums(doc) : KindOf(doc, n) = "Page"} IN
       (IF doc.cat.kind = "Catalog" /\ KindOf(doc, doc.cat.pages) = "Pages" THEN {} ELSE {"catalog-pages"})
  \cup (IF doc.tree.count = Len(doc.tree.leaves) THEN {} ELSE {"pagetree-count"})
  \cup (IF doc.tree.badparent = 0 THEN {} ELSE {"pagetree-parent"})
  \cup (IF doc.tree.badkid = 0 /\ ~doc.tree.cyclic THEN {} ELSE {"pagetree-kid"})
  \cup (IF Range(doc.tree.leaves) = pageObjs /\ Cardinality(pageObjs) = Len(doc.tree.leaves) THEN {} ELSE {"pagetree-orphan-page"})
  \cup (IF Len(doc.pages) = Len(doc.tree.leaves) THEN {} ELSE {"pagetree-unreadable-page"})
PageTreeCounts(doc) == PageTreeCountsDiag(doc) = {}

\* resource category an operator's name operand is looked up in ("" = none)
DeviceSpaces == {"DeviceGray", "DeviceRGB", "DeviceCMYK", "Pattern"}
Category(u) == CASE u.op = "Tf" -> "font"
                 [] u.op = "Do" -> "xobj"
                 [] u.op = "gs" -> "gs"
                 [] u.op \in {"scn", "SCN"} -> "pat"
                 [] u.op = "sh" -> "sh"
                 [] u.op \in {"cs", "CS"} -> (IF u.name \in DeviceSpaces THEN "" ELSE "cs")
                 [] OTHER -> ""
Defined(p, cat) == CASE cat = "font" -> Range(p.res.font) [] cat = "xobj" -> Range(p.res.xobj) [] cat = "gs" -> Range(p.res.gs)
                     [] cat = "pat" -> Range(p.res.pat) [] cat = "sh" -> Range(p.res.sh) [] cat = "cs" -> Range(p.res.cs)
ResourcesDefinedDiag(doc) ==
  UNION {{"resource-undefined:" \o Category(u) : u \in {v \in Range(doc.pages[i].uses) : Category(v) # "" /\ v.name \notin Defined(doc.pages[i], Category(v))}}
         : i \in 1..Len(doc.pages)}
ResourcesDefined(doc) == ResourcesDefinedDiag(doc) = {}

\* ---- content stream structure ---------------------------------------------------------------------
\* all operators of ISO 32000-1 Annex A with their operand count (-1: variable)
Arity == [op \in {"b", "B", "b*", "B*", "BI", "BT", "BX", "EI", "EMC", "ET", "EX", "f", "F", "f*", "h", "n", "q", "Q", "s", "S", "T*", "W", "W*"} |-> 0]
      @@ [op \in {"BMC", "CS", "cs", "Do", "G", "g", "gs", "i", "j", "J", "M", "MP", "ri", "sh", "Tc", "Tj", "TJ", "TL", "Tr", "Ts", "Tw", "Tz", "w", "'"} |-> 1]
      @@ [op \in {"BDC", "d", "d0", "DP", "l", "m", "Td", "TD", "Tf"} |-> 2]
      @@ [op \in {"RG", "rg", "\""} |-> 3]
      @@ [op \in {"K", "k", "re", "v", "y"} |-> 4]
      @@ [op \in {"c", "cm", "d1", "Tm"} |-> 6]
      @@ [op \in {"SC", "sc", "SCN", "scn", "ID"} |-> -1]
PDFOperators == DOMAIN Arity
\* operators that may not appear between BT and ET (ISO 32000-1 8.2, figure 9): path construction, painting,
\* clipping, special graphics state (q Q cm), XObjects, shading, inline images
NotInText == {"m", "l", "c", "v", "y", "h", "re", "S", "s", "f", "F", "f*", "B", "B*", "b", "b*", "n", "W", "W*",
              "q", "Q", "cm", "Do", "sh", "BI", "ID", "EI"}
\* only allowed inside a text object
OnlyInText == {"Tj", "TJ", "'", "\"", "Td", "TD", "Tm", "T*"}

OperatorsKnownDiag(doc) ==
  UNION {     {"operator-unknown:" \o o.op : o \in {x \in Range(doc.pages[i].ops) : x.op \notin PDFOperators}}
         \cup {"operator-operands:" \o o.op : o \in {x \in Range(doc.pages[i].ops) : x.op \in PDFOperators /\ Arity[x.op] # -1 /\ Arity[x.op] # x.n}}
         \cup (IF doc.pages[i].ok THEN {} ELSE {"content-unreadable"})
         : i \in 1..Len(doc.pages)}
OperatorsKnown(doc) == OperatorsKnownDiag(doc) = {}

\* one pass over the operator sequence: st = [t: inside text, d: q-depth, bad: set of [c: category, s: signature]]
B(c, s) == [c |-> c, s |-> s]
RECURSIVE Walk(_, _, _)
Walk(s, i, st) ==
  IF i > Len(s) THEN st
  ELSE LET o == s[i] IN
       Walk(s, i + 1,
         CASE o = "BT" -> IF st.t = 1 THEN [st EXCEPT !.bad = @ \cup {B("text", "text-unbalanced:BT-inside-BT")}] ELSE [st EXCEPT !.t = 1]
           [] o = "ET" -> IF st.t = 0 THEN [st EXCEPT !.bad = @ \cup {B("text", "text-unbalanced:ET-without-BT")}] ELSE [st EXCEPT !.t = 0]
           [] o = "q"  -> IF st.t = 1 THEN [st EXCEPT !.bad = @ \cup {B("intext", "operator-inside-text:q")}, !.d = @ + 1] ELSE [st EXCEPT !.d = @ + 1]
           [] o = "Q"  -> LET st1 == IF st.t = 1 THEN [st EXCEPT !.bad = @ \cup {B("intext", "operator-inside-text:Q")}] ELSE st IN
                          IF st.d = 0 THEN [st1 EXCEPT !.bad = @ \cup {B("q", "saverestore-unbalanced:Q-without-q")}] ELSE [st1 EXCEPT !.d = @ - 1]
           [] OTHER -> IF st.t = 1 /\ o \in NotInText THEN [st EXCEPT !.bad = @ \cup {B("intext", "operator-inside-text:" \o o)}]
                       ELSE IF st.t = 0 /\ o \in OnlyInText THEN [st EXCEPT !.bad = @ \cup {B("text", "text-operator-outside-text:" \o o)}]
                       ELSE st)
PageWalk(p) == LET r == Walk(p.seq, 1, [t |-> 0, d |-> 0, bad |-> {}]) IN
               r.bad \cup (IF r.t = 0 THEN {} ELSE {B("text", "text-unbalanced:BT-without-ET")})
                     \cup (IF r.d = 0 THEN {} ELSE {B("q", "saverestore-unbalanced:q-without-Q")})
StructureBad(doc) == UNION {PageWalk(doc.pages[i]) : i \in 1..Len(doc.pages)}
OfCat(doc, c) == {b.s : b \in {x \in StructureBad(doc) : x.c = c}}
TextBalancedDiag(doc) == OfCat(doc, "text")
SaveRestoreBalancedDiag(doc) == OfCat(doc, "q")
NoPathOpsInsideTextDiag(doc) == OfCat(doc, "intext")
StructureDiag(doc) == {b.s : b \in StructureBad(doc)}
TextBalanced(doc) == TextBalancedDiag(doc) = {}
SaveRestoreBalanced(doc) == SaveRestoreBalancedDiag(doc) = {}
NoPathOpsInsideText(doc) == NoPathOpsInsideTextDiag(doc) = {}

\* ---- text strings -----------------------------------------------------------------------------------
\* PDFDocEncoding restricted to the part that coincides with Unicode; other bytes decode to a negative marker
DocEnc(b) == IF (b >= 32 /\ b <= 126) \/ b \in {9, 10, 13} \/ (b >= 161 /\ b <= 255 /\ b # 173) THEN b ELSE 0 - 1 - b
RECURSIVE U16(_)
U16(b) ==      \* UTF-16BE bytes -> code points
  IF b = <<>> THEN <<>>
  ELSE IF Len(b) = 1 THEN <<-1>>
  ELSE LET u == 256 * b[1] + b[2] IN
       IF u >= 55296 /\ u <= 56319 /\ Len(b) >= 4 /\ (256 * b[3] + b[4]) >= 56320 /\ (256 * b[3] + b[4]) <= 57343
       THEN <<65536 + (u - 55296) * 1024 + (256 * b[3] + b[4] - 56320)>> \o U16(SubSeq(b, 5, Len(b)))
       ELSE <<u>> \o U16(SubSeq(b, 3, Len(b)))
DecodeText(b) ==   \* PDF text string (7.9.2.2): UTF-16BE with byte order mark, else PDFDocEncoding
  IF Len(b) >= 2 /\ b[1] = 254 /\ b[2] = 255 THEN U16(SubSeq(b, 3, Len(b))) ELSE [i \in 1..Len(b) |-> DocEnc(b[i])]
\* the two ways a writer may store a text string
Pair(u) == <<u \div 256, u % 256>>
RECURSIVE ToU16(_)
ToU16(cp) == IF cp = <<>> THEN <<>>
             ELSE LET c == Head(cp)
                      v == c - 65536
                      hi == 55296 + (v \div 1024)
                      lo == 56320 + (v % 1024)
                  IN (IF c < 65536 THEN Pair(c) ELSE Pair(hi) \o Pair(lo)) \o ToU16(Tail(cp))
EncU16(cp) == <<254, 255>> \o ToU16(cp)
RECURSIVE EOLNorm(_)
EOLNorm(b) ==    \* what a reader sees when the bytes are put into a literal string without escaping CR (7.3.4.2)
  IF b = <<>> THEN <<>>
  ELSE IF b[1] = 13 THEN <<10>> \o EOLNorm(IF Len(b) >= 2 /\ b[2] = 10 THEN SubSeq(b, 3, Len(b)) ELSE Tail(b))
  ELSE <<b[1]>> \o EOLNorm(Tail(b))
Absent == <<-1>>
Stored(obs, want) == IF want = <<>> THEN obs \in {Absent, <<>>} ELSE obs # Absent /\ DecodeText(obs) = want
\* deviation pattern of finding #15: the stored bytes are a correct encoding of the request in which unescaped CR
\* bytes have been read as line ends
CRPattern(obs, want) == /\ obs # Absent
                        /\ \/ (13 \in Range(EncU16(want)) /\ obs = EOLNorm(EncU16(want)))
                           \/ (13 \in Range(want) /\ (\A i \in 1..Len(want) : want[i] < 128) /\ obs = EOLNorm(want))
FieldDiag(name, obs, want) == IF Stored(obs, want) THEN {}
                              ELSE IF CRPattern(obs, want) THEN {"string-escape-cr"}
                              ELSE {"info-" \o name \o "-not-verbatim"}
InfoVerbatimDiag(doc, req) ==
       FieldDiag("title", doc.infod.title, req.title) \cup FieldDiag("subject", doc.infod.subject, req.subject)
  \cup FieldDiag("keywords", doc.infod.keywords, req.keywords) \cup FieldDiag("author", doc.infod.author, req.author)
  \cup FieldDiag("creator", doc.infod.creator, req.creator)
  \cup (IF Stored(doc.cat.lang, req.lang) THEN {}
        ELSE IF req.creator # req.lang /\ doc.cat.lang # Absent
                /\ (Stored(doc.cat.lang, req.creator) \/ CRPattern(doc.cat.lang, req.creator))
             THEN {"info-lang-is-creator"}          \* deviation pattern of finding #14
             ELSE {"info-lang-not-verbatim"})
InfoVerbatim(doc, req) == InfoVerbatimDiag(doc, req) = {}

TrailerSizeDiag(doc) ==
       (IF doc.size = Len(doc.xref) /\ (ObjNums(doc) = {} \/ doc.size = Max(ObjNums(doc)) + 1) THEN {} ELSE {"trailer-size"})
  \cup (IF KindOf(doc, doc.root) = "Catalog" THEN {} ELSE {"trailer-root"})
  \cup (IF doc.info = -1 \/ KindOf(doc, doc.info) \in {"dict", "Info"} THEN {} ELSE {"trailer-info"})
  \cup (IF \A i \in 1..Len(doc.objs) : ~doc.objs[i].dup THEN {} ELSE {"dictionary-duplicate-key"})
TrailerSize(doc) == TrailerSizeDiag(doc) = {}

\* Text shown in one of the 14 standard fonts is written as WinAnsi literal strings: the escaping of ( ) \ must round-trip,
\* i.e. the decoded string operands are the characters the layout asked to show (want: one byte sequence per text object,
\* taken by the driver from the laid-out glyphs).  A broken escape that still tokenises is seen only here.
RECURSIVE CatSeqs(_)
CatSeqs(ss) == IF ss = <<>> THEN <<>> ELSE Head(ss) \o CatSeqs(Tail(ss))
ShownOf(doc) == CatSeqs([i \in 1..Len(doc.pages) |-> doc.pages[i].shown])
InShownTextVerbatimDiag(doc, want) == IF ShownOf(doc) = want THEN {} ELSE {"shown-text-not-verbatim:standard-font"}
InShownTextVerbatim(doc, want) == InShownTextVerbatimDiag(doc, want) = {}

Diag(doc, req) == HeaderTrailerDiag(doc) \cup XrefCompleteDiag(doc) \cup OffsetsExactDiag(doc) \cup RefsResolveDiag(doc)
             \cup LengthsExactDiag(doc) \cup FiltersDecodeDiag(doc) \cup PageTreeCountsDiag(doc) \cup ResourcesDefinedDiag(doc)
             \cup OperatorsKnownDiag(doc) \cup StructureDiag(doc) \cup InfoVerbatimDiag(doc, req) \cup TrailerSizeDiag(doc)
Valid(doc, req) == Diag(doc, req) = {}
=============================================================================
