----------------------------- MODULE Transform -----------------------------
(* C07: Path.Transform maps every point of a path, and canvas.Matrix obeys the algebra it documents.  *)
(*                                                                                                    *)
(* Exact rational affine matrices  [n |-> <<a,b,c,d,e,f>>, d |-> den]  = (1/den) [a b c; d e f],       *)
(* normalised (gcd 1, den > 0), built on Mat.tla.  Integer matrices with det # 0 (rotations by 90k,   *)
(* anisotropic scales, shears, reflections, near-singular unimodular ones) and Pythagorean rotations   *)
(* (entries/5) are all exact.                                                                          *)
(*                                                                                                    *)
(* What = "path":    scenario = lattice curve path p (CurveGen) x matrix m.  The spec prints           *)
(*     img   the image of every control point (and arc centre) under m, segment by segment,            *)
(*     wps   for every arc the images of its integer way-points (lattice points of its ellipse that    *)
(*           lie on the arc) in the order in which the arc passes them,                                *)
(*     smp   sample points m.s with the winding number the transformed path must have there:           *)
(*           sgn(det m) * w_p(s)   (winding function transforms by w o m^-1 with sign sgn det)          *)
(* What = "algebra": the Matrix register machine: a history of calls of the builder methods            *)
(*     (Translate, Rotate, Scale, Shear, Reflect*, *About: post-multiplication; Mul composes            *)
(*     right-to-left), T and Inv, with the exact register value after every call, its determinant,     *)
(*     the images of three lattice points (Dot) and the SVG-convention images (ToSVG(h)).               *)
EXTENDS CurveGen, Mat, Json, Randomization

CONSTANTS What,      \* "path" | "algebra"
          N, Kinds, Num, NC,      \* path scenarios (as in Query)
          MatMode,   \* "one": identity only (model-level run) ; "fixed": the curated list ; "few": 9 of them ; "random": RandomSubset of integer matrices with entries -3..3
          MaxLen,    \* algebra: maximal history length
          Profile    \* algebra: "small" | "full" call alphabet

\* ---- rational matrices ------------------------------------------------------------------------------------------------
RECURSIVE Gcd_(_, _)
Gcd_(a, b) == IF b = 0 THEN a ELSE Gcd_(b, a % b)
Gcd(a, b) == Gcd_(Abs(a), Abs(b))
Gcd6(t, d) == Gcd(Gcd(Gcd(t[1], t[2]), Gcd(t[3], t[4])), Gcd(Gcd(t[5], t[6]), d))
RNorm(t, d) == LET g0 == Gcd6(t, d) g == (IF g0 = 0 THEN 1 ELSE g0) * (IF d < 0 THEN -1 ELSE 1)
               IN [n |-> [i \in 1..6 |-> t[i] \div g], d |-> d \div g]
RInt(t) == [n |-> t, d |-> 1]
RId == RInt(MId)
\* x * y (the right operand is applied to a point first)
RMul(x, y) == LET a == x.n b == y.n IN
              RNorm(<< a[1]*b[1] + a[2]*b[4], a[1]*b[2] + a[2]*b[5], a[1]*b[3] + a[2]*b[6] + a[3]*y.d,
                       a[4]*b[1] + a[5]*b[4], a[4]*b[2] + a[5]*b[5], a[4]*b[3] + a[5]*b[6] + a[6]*y.d >>, x.d * y.d)
RDetNum(x) == MDet(x.n)                      \* det = RDetNum / d^2
RT(x) == [x EXCEPT !.n = MT(x.n)]
\* inverse: adj(A) * d / det(A) for the linear part, -adj(A) t / det(A) for the translation
RInv(x) == LET a == x.n dt == MDet(a) IN
           RNorm(<< a[5]*x.d, -a[2]*x.d, -(a[5]*a[3] - a[2]*a[6]), -a[4]*x.d, a[1]*x.d, -(-a[4]*a[3] + a[1]*a[6]) >>, dt)
\* image of the integer point p, as <<numX, numY>> over the denominator x.d
RDot(x, p) == << x.n[1]*p[1] + x.n[2]*p[2] + x.n[3], x.n[4]*p[1] + x.n[5]*p[2] + x.n[6] >>
RMax(x) == MaxI(MMaxAbs(x.n), x.d)
RPyth(i) == CASE i = 1 -> [n |-> <<4,-3,0,3,4,0>>, d |-> 5]       \* rotation by atan2(3,4) = 36.87 deg
              [] i = 2 -> [n |-> <<3,-4,0,4,3,0>>, d |-> 5]       \* rotation by atan2(4,3) = 53.13 deg
              [] i = 3 -> [n |-> <<4,3,0,-3,4,0>>, d |-> 5]       \* rotation by -36.87 deg
              [] i = 4 -> [n |-> <<-3,-4,0,4,-3,0>>, d |-> 5]     \* rotation by 126.87 deg

\* =================================== path scenarios ===================================================================
FixedMats == << RInt(MRot90(1)), RInt(MRot90(2)), RInt(MRot90(3)), RInt(MSc(2,1)), RInt(MSc(1,3)), RInt(MSc(-1,1)), RInt(MSc(1,-1)),
                RInt(MSc(2,-3)), RInt(MSc(-2,-2)), RInt(MSh(1,0)), RInt(MSh(0,2)), RInt(MSh(-1,2)), RInt(<<2,1,0,1,1,0>>),
                RInt(<<3,2,1,1,1,-2>>), RInt(<<1,2,0,3,4,0>>), RInt(<<2,3,5,1,2,-1>>), RInt(<<7,5,0,4,3,0>>), RInt(<<5,8,1,3,5,1>>),
                RInt(<<5,-8,0,-3,5,0>>), RInt(<<0,2,0,1,0,0>>), RInt(<<0,1,3,1,0,-3>>), RInt(<<1,1,0,-1,1,0>>), RInt(<<2,-1,0,1,2,4>>),
                RInt(<<-1,2,0,2,1,0>>), RInt(<<3,0,0,0,3,0>>), RInt(MTr(5,-7)), RInt(<<1,3,0,0,1,0>>), RInt(<<1,0,0,-3,1,0>>),
                RInt(<<4,1,0,7,2,0>>), RInt(<<2,7,0,1,4,0>>), RInt(<<-7,-5,2,4,3,0>>), RInt(<<3,-1,0,1,3,0>>),
                RPyth(1), RPyth(2), RPyth(3), RPyth(4),
                RMul(RPyth(1), RInt(MSc(1,-1))), RMul(RPyth(2), RInt(MSc(2,1))), RMul(RInt(MSc(1,2)), RPyth(1)), RMul(RInt(MSh(1,0)), RPyth(3)),
                RMul(RPyth(1), RPyth(1)), RMul(RInt(MTr(3,1)), RPyth(2)), RMul(RPyth(4), RInt(MSc(-1,1))), RMul(RInt(<<2,1,0,1,1,0>>), RPyth(1)),
                RNorm(<<1,0,0,0,1,0>>, 2), RNorm(<<3,0,0,0,1,0>>, 2), RNorm(<<1,1,0,-1,1,0>>, 2), RNorm(<<2,0,1,0,-2,1>>, 5),
                \* large and tiny uniform magnifications combined with a rotation / shear (entries 49-52)
                RNorm(<<2048,-1536,0,1536,2048,0>>, 5), RNorm(<<4,-3,0,3,4,0>>, 2560), RInt(<<400,-300,7,300,400,-3>>),
                RNorm(<<2,1,0,0,1,0>>, 1024) >>
Ent == -3..3
MatChoice == IF MatMode = "one" THEN {RId} ELSE IF MatMode = "fixed" THEN {FixedMats[i] : i \in 1..Len(FixedMats)}
             ELSE IF MatMode = "few" THEN {FixedMats[i] : i \in {1, 5, 10, 13, 17, 26, 33, 37, 44, 49, 50}}
             ELSE {RInt(<<t[1], t[2], t[5], t[3], t[4], t[6]>>) : t \in {u \in RandomSubset(60, [1..6 -> Ent]) : u[1] * u[4] - u[2] * u[3] # 0}}

SC == 2
Pt == (0..N) \X (0..N)
QLo == -2
QHi == 2 * N + 2
QW == QHi - QLo + 1
NQ == QW * QW
QPt(i) == <<QLo + ((i - 1) % QW), QLo + ((i - 1) \div QW)>>
Poly(c) == Ctr(c[1], [i \in 1..(Len(c) - 1) |-> Ln(c[i + 1])], TRUE)
FamSet == 1..9

VARIABLES path, mat, reg, hist, regs, done
vars == <<path, mat, reg, hist, regs, done>>

\* "propeller" paths (NC = 3, needs N >= 20): two arcs with the SAME radii but DIFFERENT rotation of the ellipse in one
\* contour, about the same centre: families 6 (10,5 axis-parallel), 7 (5,10: the builder swaps the radii and turns by
\* 90 degrees), 8 (10,5 rotated by atan(3/4)), 9 (5,10 rotated).  Every pair of distinct rotations, both sweeps, a few
\* choices of end points; the second arc is reached by a straight line when needed.
PropArc(f, i, k, sw) == LET pts == FamSeq[f] n == Len(pts) IN
                        [a |-> PAdd(<<10, 10>>, pts[(i % n) + 1]), g |-> MkArc(f, <<10, 10>>, pts[(i % n) + 1], pts[((i + k) % n) + 1], sw, 0)]
PropPaths == {LET x == PropArc(fp[1], i, k, sw) y == PropArc(fp[2], i + 1, k + 1, 1 - sw)
              IN <<Ctr(x.a, <<x.g, Ln(y.a), y.g>>, TRUE)>> :
                 fp \in {<<6, 8>>, <<8, 6>>, <<6, 7>>, <<7, 9>>, <<9, 8>>, <<8, 7>>}, i \in {0, 1}, k \in {1, 2}, sw \in {0, 1}}
PathChoice == IF NC = 3 THEN PropPaths ELSE IF NC = 1 THEN {<<DecodeCtr(GenVec(sd), N, Kinds, FamSet)>> : sd \in RandomSubset(Num, GenSeeds)}
              ELSE {<<DecodeCtr(GenVec(sd), N, Kinds, FamSet), DecodeCtr(GenVec(sd + 104729), N, Kinds \cup {"L"}, FamSet)>> : sd \in RandomSubset(Num, GenSeeds)}

\* way-points of an arc: the lattice points of its ellipse that lie strictly inside the arc, ordered along the arc
\* (position = angular offset from the start point in the ellipse's own frame, compared by exact cross products)
FamOf(g) == CHOOSE f \in 1..Len(Fams) : Fams[f].rad = g.c2 /\ Fams[f].rot = g.rot
NU(g, q) == EU(g, q) * g.c2[2]      \* the ellipse's frame normalised to a circle (times rx*ry*EDen)
NV(g, q) == EV(g, q) * g.c2[1]
XP(g, q, r) == NU(g, q) * NV(g, r) - NV(g, q) * NU(g, r)
DP(g, q, r) == NU(g, q) * NU(g, r) + NV(g, q) * NV(g, r)
\* half-turn index of q relative to the start a, in the travelling direction dir: 0 = within [0,180), 1 = within [180,360)
HalfIx(g, a, q, dir) == LET x == dir * XP(g, a, q) IN IF x > 0 \/ (x = 0 /\ DP(g, a, q) > 0) THEN 0 ELSE 1
Before(g, a, q, r, dir) == LET hq == HalfIx(g, a, q, dir) hr == HalfIx(g, a, r, dir) IN
                           IF hq # hr THEN hq < hr ELSE dir * XP(g, q, r) > 0
WayPts(a, g) == LET dir == IF g.sw = 1 THEN 1 ELSE -1
                    cand == {PAdd(g.c1, o) : o \in {FamSeq[FamOf(g)][i] : i \in 1..Len(FamSeq[FamOf(g)])}}
                    inside == {q \in cand : q # a /\ q # g.p /\ ArcWB(a, g, q)[2] = 1}
                IN SortSeq(SetToSeq(inside), LAMBDA q, r : Before(g, a, q, r, dir))

\* images, over the denominator mat.d: per contour [s, segs: [k, p, c1, c2, wp]]
ImgSeg(a, g) == [k |-> g.k, p |-> RDot(mat, g.p), c1 |-> RDot(mat, g.c1), c2 |-> IF g.k = "C" THEN RDot(mat, g.c2) ELSE Z2,
                 wp |-> IF g.k = "A" THEN LET w == WayPts(a, g) IN [i \in 1..Len(w) |-> RDot(mat, w[i])] ELSE <<>>]
ImgCtr(c) == [s |-> RDot(mat, c.s), segs |-> [i \in 1..Len(c.segs) |-> ImgSeg(SegStart(c, i), c.segs[i])], cl |-> c.cl]
\* winding samples: every 7th query point that is decided and off the boundary:  <<numX, numY, w'>> over the denominator SC * mat.d
Samples(pp) == LET sg == Sgn(RDetNum(mat))
                   idx == {i \in 1..NQ : (i + Len(pp[1].segs)) % (IF N > 10 THEN 23 ELSE 7) = 0}
                   rows == {<<i, PathWB(pp, QPt(i))>> : i \in idx}
               IN {LET q == RDot([mat EXCEPT !.n[3] = SC * mat.n[3], !.n[6] = SC * mat.n[6]], QPt(r[1])) IN <<q[1], q[2], sg * r[2][1]>> : r \in {x \in rows : x[2][2] = 0}}
PathScenario == LET pp == ScalePath(SC, path) IN
    [path |-> path, mat |-> mat.n, den |-> mat.d, detsign |-> Sgn(RDetNum(mat)),
     img |-> [j \in 1..Len(path) |-> ImgCtr(path[j])],
     smp |-> SetToSeq(Samples(pp)), sden |-> SC * mat.d]

\* =================================== matrix register machine ========================================================
Call(op, a) == [op |-> op, a |-> a]
Calls == IF Profile = "small"
         THEN {Call("Translate", <<3,-1>>), Call("Rotate", <<1>>), Call("RotateP", <<1>>), Call("Scale", <<2,1>>), Call("Scale", <<1,-3>>),
               Call("Shear", <<1,0>>), Call("Shear", <<-1,2>>), Call("ReflectX", <<>>), Call("ReflectY", <<>>),
               Call("RotateAbout", <<1,2,1>>), Call("ScaleAbout", <<2,3,1,1>>), Call("ShearAbout", <<0,1,2,-1>>),
               Call("ReflectXAbout", <<3>>), Call("ReflectYAbout", <<-2>>), Call("Mul", <<2,1,1,1,1,-2>>), Call("T", <<>>), Call("Inv", <<>>)}
         ELSE {Call("Translate", p) : p \in {<<3,-1>>, <<-2,5>>, <<0,4>>}}
              \cup {Call("Rotate", <<k>>) : k \in {1, 2, 3}} \cup {Call("RotateP", <<i>>) : i \in 1..4}
              \cup {Call("Scale", p) : p \in {<<2,1>>, <<1,-3>>, <<-1,1>>, <<2,2>>, <<-2,-1>>}}
              \cup {Call("Shear", p) : p \in {<<1,0>>, <<0,2>>, <<-1,2>>, <<2,1>>}}
              \cup {Call("ReflectX", <<>>), Call("ReflectY", <<>>), Call("T", <<>>), Call("Inv", <<>>)}
              \cup {Call("RotateAbout", p) : p \in {<<1,2,1>>, <<3,-1,4>>}} \cup {Call("RotatePAbout", <<2,1,-2>>)}
              \cup {Call("ScaleAbout", p) : p \in {<<2,3,1,1>>, <<-1,2,0,3>>}} \cup {Call("ShearAbout", p) : p \in {<<0,1,2,-1>>, <<1,-1,1,1>>}}
              \cup {Call("ReflectXAbout", <<3>>), Call("ReflectYAbout", <<-2>>)}
              \cup {Call("Mul", q) : q \in {<<2,1,1,1,1,-2>>, <<1,2,0,3,4,0>>, <<7,5,0,4,3,1>>, <<0,-1,2,1,0,0>>}}
\* the matrix a builder call post-multiplies with (documented: m.Translate(..) = m.Mul(translation), so it is applied FIRST)
About(g, x, y) == RMul(RMul(RInt(MTr(x, y)), g), RInt(MTr(-x, -y)))
CallMat(c) == LET a == c.a IN
    CASE c.op = "Translate"     -> RInt(MTr(a[1], a[2]))
      [] c.op = "Rotate"        -> RInt(MRot90(a[1]))
      [] c.op = "RotateP"       -> RPyth(a[1])
      [] c.op = "Scale"         -> RInt(MSc(a[1], a[2]))
      [] c.op = "Shear"         -> RInt(MSh(a[1], a[2]))
      [] c.op = "ReflectX"      -> RInt(MSc(-1, 1))
      [] c.op = "ReflectY"      -> RInt(MSc(1, -1))
      [] c.op = "RotateAbout"   -> About(RInt(MRot90(a[1])), a[2], a[3])
      [] c.op = "RotatePAbout"  -> About(RPyth(a[1]), a[2], a[3])
      [] c.op = "ScaleAbout"    -> About(RInt(MSc(a[1], a[2])), a[3], a[4])
      [] c.op = "ShearAbout"    -> About(RInt(MSh(a[1], a[2])), a[3], a[4])
      [] c.op = "ReflectXAbout" -> About(RInt(MSc(-1, 1)), a[1], 0)
      [] c.op = "ReflectYAbout" -> About(RInt(MSc(1, -1)), 0, a[1])
      [] c.op = "Mul"           -> RInt(a)
Apply(r, c) == CASE c.op = "T" -> RT(r)
                 [] c.op = "Inv" -> RInv(r)
                 [] OTHER -> RMul(r, CallMat(c))
Enabled(r, c) == c.op = "Inv" => RDetNum(r) # 0
Bound == 20000
Step(c) == /\ What = "algebra" /\ Len(hist) < MaxLen /\ Enabled(reg, c)
           /\ LET r == Apply(reg, c) IN RMax(r) <= Bound /\ reg' = r /\ regs' = Append(regs, r)
           /\ hist' = Append(hist, c) /\ UNCHANGED <<path, mat, done>>

ProbePts == << <<1, 0>>, <<0, 1>>, <<3, -2>> >>
SvgH == 10
\* ToSVG(h) convention (documented by the library's own matrix(...) form): a point (X, Y) given in the y-down frame as
\* (X, -Y) is mapped to (X', h - Y') where (X', Y') = m.(X, Y).  Printed as numerators over reg.d.
SvgImg(r, p) == LET q == RDot(r, p) IN <<q[1], SvgH * r.d - q[2]>>
AlgScenario == [hist |-> hist, regs |-> [i \in 1..Len(regs) |-> [n |-> regs[i].n, d |-> regs[i].d]],
                detnum |-> RDetNum(reg), den |-> reg.d,
                dot |-> [i \in 1..3 |-> RDot(reg, ProbePts[i])], svg |-> [i \in 1..3 |-> SvgImg(reg, ProbePts[i])], h |-> SvgH,
                inv |-> IF RDetNum(reg) # 0 THEN LET v == RInv(reg) IN [n |-> v.n, d |-> v.d] ELSE [n |-> MId, d |-> 0],
                tr |-> RT(reg).n]

Init == /\ done = FALSE /\ hist = <<>> /\ reg = RId /\ regs = <<>>
        /\ IF What = "path" THEN path \in PathChoice /\ mat \in MatChoice ELSE path = <<>> /\ mat = RId
Emit == What = "path" /\ ~done /\ done' = TRUE /\ UNCHANGED <<path, mat, reg, hist, regs>> /\ PathOK(path) /\ PrintT("@@" \o ToJson(PathScenario))
Next == Emit \/ \E c \in Calls : Step(c)
Spec == Init /\ [][Next]_vars
EmitInv == (What = "algebra" /\ Len(hist) >= 1) => PrintT("@@" \o ToJson(AlgScenario))

\* ---- model-level properties -------------------------------------------------------------------------------------------
\* algebra: inverse, transpose, determinant and composition laws of the register values
InvLaw == (What = "algebra" /\ RDetNum(reg) # 0) => RMul(reg, RInv(reg)) = RId /\ RMul(RInv(reg), reg) = RId /\ RInv(RInv(reg)) = reg
TLaw == What = "algebra" => RT(RT(reg)) = reg /\ RDetNum(RT(reg)) = RDetNum(reg)
\* det is multiplicative: det(reg') d'^2 ... checked on the step as an action property
DetMul == [][\A c \in Calls : (hist' = Append(hist, c) /\ c.op \notin {"T", "Inv"}) =>
               RDetNum(reg') * reg.d * reg.d * CallMat(c).d * CallMat(c).d = RDetNum(reg) * RDetNum(CallMat(c)) * reg'.d * reg'.d]_vars
\* Mul composes right-to-left: (reg * q).p = reg.(q.p) for integer q
RightToLeft == [][\A c \in Calls : (hist' = Append(hist, c) /\ c.op \notin {"T", "Inv"} /\ CallMat(c).d = 1) =>
                    \A i \in 1..3 : RDot(reg', ProbePts[i]) = LET q == RDot(CallMat(c), ProbePts[i]) IN
                                        << ((reg.n[1]*q[1] + reg.n[2]*q[2] + reg.n[3]) * reg'.d) \div reg.d, ((reg.n[4]*q[1] + reg.n[5]*q[2] + reg.n[6]) * reg'.d) \div reg.d >>]_vars
\* path: lattice similarities map a lattice curve path to a lattice curve path; the winding function transforms by w o m^-1 * sgn det
SimMats == {RInt(MRot90(1)), RInt(MRot90(2)), RInt(MSc(-1, 1)), RInt(MSc(1, -1)), RInt(<<0,1,0,1,0,0>>), RInt(MSc(2, 2)), RInt(<<0,-2,1,2,0,3>>)}
MapSeg(r, g) == LET fl == RDetNum(r) < 0 sc == MaxI(Abs(r.n[1]), Abs(r.n[2]))
                    swapax == r.n[1] = 0          \* a quarter turn (or the transpose) exchanges the axes of an axis-parallel ellipse
                IN IF g.k = "A"
                   THEN [g EXCEPT !.p = RDot(r, g.p), !.c1 = RDot(r, g.c1), !.sw = IF fl THEN 1 - g.sw ELSE g.sw,
                                  !.c2 = IF swapax THEN <<sc * g.c2[2], sc * g.c2[1]>> ELSE <<sc * g.c2[1], sc * g.c2[2]>>]
                   ELSE [g EXCEPT !.p = RDot(r, g.p), !.c1 = RDot(r, g.c1), !.c2 = RDot(r, g.c2)]
MapPath(r, p) == [j \in 1..Len(p) |-> [s |-> RDot(r, p[j].s), segs |-> [i \in 1..Len(p[j].segs) |-> MapSeg(r, p[j].segs[i])], cl |-> p[j].cl]]
NoRot(p) == \A j \in 1..Len(p) : \A i \in 1..Len(p[j].segs) : p[j].segs[i].rot = 0
WindingCovariant == (What = "path" /\ done /\ NoRot(path)) =>
    LET pp == ScalePath(SC, path) IN \A r \in SimMats : LET qq == MapPath(r, pp) IN
        \A i \in {k \in 1..NQ : k % 5 = 0} : LET s == QPt(i) a == PathWB(pp, s) b == PathWB(qq, RDot(r, s)) IN
            a[2] = b[2] /\ (a[2] = 0 => b[1] = Sgn(RDetNum(r)) * a[1])
\* way-points are on the arc, distinct, and consecutive ones are in travelling order
WayPtsOK == (What = "path" /\ done) => \A j \in 1..Len(path) : \A i \in 1..Len(path[j].segs) :
    LET g == path[j].segs[i] a == SegStart(path[j], i) IN g.k = "A" =>
        LET w == WayPts(a, g) dir == IF g.sw = 1 THEN 1 ELSE -1 IN
        /\ \A k \in 1..Len(w) : ArcWB(a, g, w[k])[2] = 1
        /\ \A k \in 1..(Len(w) - 1) : Before(g, a, w[k], w[k + 1], dir)
=============================================================================
