----------------------------- MODULE RectAlg -----------------------------
(* X03 (extension beyond the listed properties): the algebra of canvas.Rect (util.go) -- the value type behind   *)
(* Bounds, clipping pre-filters, views and image placement.  A rectangle is modelled by the point set it stands *)
(* for, not by the min/max formulas of the implementation:                                                      *)
(*   Closed(r) = lattice points with X0 <= x <= X1 and Y0 <= y <= Y1,   Open(r) = the same with < (on the       *)
(*   doubled lattice, so that a unit cell has an interior point).                                               *)
(* Every operation is specified through those sets (Add = least rectangle containing both, And = the common     *)
(* part if it has an interior, Contains = subset, Overlaps = interiors meet, Touches = closed sets meet,        *)
(* ClosestPoint = the point of Closed(r) at minimal distance, ...), and a register machine over one rectangle   *)
(* (Add, And, AddPoint, Expand, Translate, Transform by lattice matrices, RectFromPoints) gives the histories   *)
(* that are replayed into the real type.                                                                        *)
EXTENDS Integers, FiniteSets, Sequences, TLC, Json

CONSTANTS N,          \* rectangles have corners on 0..N
          Mode,       \* "tables": one record per rectangle with every query against every probe; "machine": histories
          MaxOps      \* length of a history in machine mode

Coord == 0..N
Rects == {r \in [x0 : Coord, y0 : Coord, x1 : Coord, y1 : Coord] : r.x0 <= r.x1 /\ r.y0 <= r.y1}
Probe == (0 - 1)..(N + 1)
Pts == Probe \X Probe
Zero == [x0 |-> 0, y0 |-> 0, x1 |-> 0, y1 |-> 0]

Min(a, b) == IF a < b THEN a ELSE b
Max(a, b) == IF a > b THEN a ELSE b
Abs(x) == IF x < 0 THEN 0 - x ELSE x

\* ---- point-set semantics (doubled coordinates) -----------------------------------------------------------------
Closed2(r) == {<<x, y>> \in (2 * r.x0..2 * r.x1) \X (2 * r.y0..2 * r.y1) : TRUE}
Open2(r) == {<<x, y>> \in (2 * r.x0 + 1..2 * r.x1 - 1) \X (2 * r.y0 + 1..2 * r.y1 - 1) : TRUE}
InClosed(r, p) == r.x0 <= p[1] /\ p[1] <= r.x1 /\ r.y0 <= p[2] /\ p[2] <= r.y1
Corners(r) == {<<r.x0, r.y0>>, <<r.x1, r.y0>>, <<r.x1, r.y1>>, <<r.x0, r.y1>>}

\* least rectangle containing a non-empty finite set of points
BBox(S) == [x0 |-> CHOOSE x \in {p[1] : p \in S} : \A p \in S : x <= p[1],
            y0 |-> CHOOSE y \in {p[2] : p \in S} : \A p \in S : y <= p[2],
            x1 |-> CHOOSE x \in {p[1] : p \in S} : \A p \in S : x >= p[1],
            y1 |-> CHOOSE y \in {p[2] : p \in S} : \A p \in S : y >= p[2]]

Add(r, q) == BBox(Corners(r) \cup Corners(q))
AddPoint(r, p) == BBox(Corners(r) \cup {p})
\* the common part, if it has an interior; the zero rectangle otherwise (doc: "the rectangle that is the overlap of both")
And(r, q) == LET I == Open2(r) \cap Open2(q) IN
             IF I = {} THEN Zero
             ELSE LET b == BBox(I) IN [x0 |-> (b.x0 - 1) \div 2, y0 |-> (b.y0 - 1) \div 2, x1 |-> (b.x1 + 1) \div 2, y1 |-> (b.y1 + 1) \div 2]
Contains(r, q) == Closed2(q) \subseteq Closed2(r)
Overlaps(r, q) == Open2(r) \cap Open2(q) # {}
Touches(r, q) == Closed2(r) \cap Closed2(q) # {}
Dist2(p, q) == (p[1] - q[1]) * (p[1] - q[1]) + (p[2] - q[2]) * (p[2] - q[2])
\* the closest point of the closed rectangle to a lattice point is a lattice point (clamping) and is unique
LatClosed(r) == (r.x0..r.x1) \X (r.y0..r.y1)
Closest(r, p) == CHOOSE c \in LatClosed(r) : \A d \in LatClosed(r) : Dist2(p, c) <= Dist2(p, d)
Empty(r) == Open2(r) = {}
Area(r) == (r.x1 - r.x0) * (r.y1 - r.y0)
Expandable(r, d) == r.x0 - d <= r.x1 + d /\ r.y0 - d <= r.y1 + d
Expand(r, d) == [x0 |-> r.x0 - d, y0 |-> r.y0 - d, x1 |-> r.x1 + d, y1 |-> r.y1 + d]
Translate(r, v) == [x0 |-> r.x0 + v[1], y0 |-> r.y0 + v[2], x1 |-> r.x1 + v[1], y1 |-> r.y1 + v[2]]
\* lattice matrices <<a, b, c, d, e, f>>: (x, y) -> (a x + b y + c, d x + e y + f), the layout of canvas.Matrix
Mats == {<<1, 0, 0, 0, 1, 0>>, <<0, 0 - 1, 0, 1, 0, 0>>, <<0 - 1, 0, 0, 0, 0 - 1, 0>>, <<0, 1, 0, 0 - 1, 0, 0>>,
         <<0 - 1, 0, 0, 0, 1, 0>>, <<1, 0, 0, 0, 0 - 1, 0>>, <<0, 1, 0, 1, 0, 0>>, <<2, 0, 0, 0, 1, 0>>,
         <<1, 1, 0, 0, 1, 0>>, <<1, 0, 0, 1, 1, 0>>, <<1, 0 - 1, 2, 1, 1, 0 - 1>>, <<0, 0, 1, 0, 0, 2>>, <<1, 1, 0, 1, 1, 0>>,
         \* each corner is the unique extreme in x and in y under one of these (a missed corner in Transform)
         <<1, 1, 0, 0 - 1, 1, 0>>, <<0 - 1, 0 - 1, 0, 1, 0 - 1, 0>>, <<0 - 1, 1, 0, 0 - 1, 0 - 1, 0>>, <<2, 0 - 1, 1, 1, 3, 0>>}
Apply(m, p) == <<m[1] * p[1] + m[2] * p[2] + m[3], m[4] * p[1] + m[5] * p[2] + m[6]>>
Transform(r, m) == BBox({Apply(m, p) : p \in Corners(r)})

\* ---- segments against rectangles ---------------------------------------------------------------------------------
Orient(a, b, c) == (b[1] - a[1]) * (c[2] - a[2]) - (b[2] - a[2]) * (c[1] - a[1])
Sgn(x) == IF x > 0 THEN 1 ELSE IF x < 0 THEN 0 - 1 ELSE 0
OnSeg(a, b, c) == Orient(a, b, c) = 0 /\ Min(a[1], b[1]) <= c[1] /\ c[1] <= Max(a[1], b[1]) /\ Min(a[2], b[2]) <= c[2] /\ c[2] <= Max(a[2], b[2])
SegMeet(a, b, c, d) ==
    LET o1 == Sgn(Orient(a, b, c)) o2 == Sgn(Orient(a, b, d)) o3 == Sgn(Orient(c, d, a)) o4 == Sgn(Orient(c, d, b)) IN
    \/ (o1 * o2 < 0 /\ o3 * o4 < 0)
    \/ OnSeg(a, b, c) \/ OnSeg(a, b, d) \/ OnSeg(c, d, a) \/ OnSeg(c, d, b)
Edges(r) == {<<<<r.x0, r.y0>>, <<r.x1, r.y0>>>>, <<<<r.x1, r.y0>>, <<r.x1, r.y1>>>>, <<<<r.x1, r.y1>>, <<r.x0, r.y1>>>>, <<<<r.x0, r.y1>>, <<r.x0, r.y0>>>>}
SegMeetsRect(r, a, b) == InClosed(r, a) \/ InClosed(r, b) \/ \E e \in Edges(r) : SegMeet(a, b, e[1], e[2])
\* the segment meets the rectangle in exactly one corner and nowhere else: the clipping arithmetic decides that case by
\* one rounded division, the model leaves it free
CornerOnly(r, a, b) ==
    /\ ~InClosed(r, a) /\ ~InClosed(r, b) /\ a # b
    /\ Cardinality({c \in Corners(r) : OnSeg(a, b, c)}) = 1
    /\ (\A c \in Corners(r) : Orient(a, b, c) >= 0) \/ (\A c \in Corners(r) : Orient(a, b, c) <= 0)
\* 1 = meets, 0 = does not, 2 = free
LineClass(r, a, b) == IF a = b THEN (IF InClosed(r, a) THEN 1 ELSE 0)
                      ELSE IF CornerOnly(r, a, b) THEN 2 ELSE IF SegMeetsRect(r, a, b) THEN 1 ELSE 0

\* ---- encoding ------------------------------------------------------------------------------------------------------
EncR(r) == <<r.x0, r.y0, r.x1, r.y1>>
Bit(b) == IF b THEN 1 ELSE 0

VARIABLES r, hist, done
vars == <<r, hist, done>>

\* Overlaps is specified for rectangles that have an interior; with a degenerate operand (a segment or a point, e.g. the
\* bounds of a horizontal line) the implementation answers for the segment and the row says "free" (2)
QTable(rr) == {<<EncR(q), EncR(Add(rr, q)), EncR(And(rr, q)), Bit(Contains(rr, q)), IF Empty(rr) \/ Empty(q) THEN 2 ELSE Bit(Overlaps(rr, q)), Bit(Touches(rr, q))>> : q \in Rects}
PTable(rr) == {<<p, Bit(InClosed(rr, p)), Closest(rr, p), Dist2(p, Closest(rr, p)), EncR(AddPoint(rr, p))>> : p \in Pts}
LTable(rr) == {<<a, b, LineClass(rr, a, b), Bit(InClosed(rr, a) /\ InClosed(rr, b))>> : a \in Pts, b \in Pts}
MTable(rr) == {<<m, EncR(Transform(rr, m))>> : m \in Mats}

\* ---- the register machine ---------------------------------------------------------------------------------------------
Small(q) == q.x0 >= 0 - 64 /\ q.x1 <= 64 /\ q.y0 >= 0 - 64 /\ q.y1 <= 64
Step(op, arg, nr) == /\ Small(nr) /\ r' = nr /\ hist' = Append(hist, [op |-> op, arg |-> arg, r |-> EncR(nr), empty |-> Bit(nr.x0 = nr.x1 \/ nr.y0 = nr.y1), area |-> Area(nr)])
OpAdd == \E q \in Rects : Step("Add", EncR(q), Add(r, q))
\* And is specified on the lattice window only (Open2 enumerates points): enabled while r is inside a small window
OpAnd == /\ r.x0 >= 0 - 8 /\ r.x1 <= 8 /\ r.y0 >= 0 - 8 /\ r.y1 <= 8
         /\ \E q \in Rects : Step("And", EncR(q), And(r, q))
OpAddPoint == \E p \in Pts : Step("AddPoint", p, AddPoint(r, p))
OpExpand == \E d \in {0 - 2, 0 - 1, 1, 3} : Expandable(r, d) /\ Step("Expand", <<d>>, Expand(r, d))
OpTranslate == \E v \in {0 - 3, 0, 2} \X {0 - 1, 0, 4} : Step("Translate", v, Translate(r, v))
OpTransform == \E m \in Mats : Step("Transform", m, Transform(r, m))
OpFromPoints == \E a \in Pts, b \in {<<0, 0>>, <<N, 0 - 1>>, <<1, N + 1>>, <<2, 2>>}, c \in {<<1, 1>>, <<0 - 1, N>>} : Step("FromPoints", <<a, b, c>>, BBox({a, b, c}))

Init == /\ r \in Rects /\ done = FALSE
        /\ hist = <<[op |-> "Start", arg |-> EncR(r), r |-> EncR(r), empty |-> Bit(r.x0 = r.x1 \/ r.y0 = r.y1), area |-> Area(r)]>>
EmitTables == /\ Mode = "tables" /\ ~done /\ done' = TRUE /\ UNCHANGED <<r, hist>>
              /\ PrintT("@@" \o ToJson([r |-> EncR(r), empty |-> Bit(Empty(r)), area |-> Area(r),
                                        q |-> QTable(r), p |-> PTable(r), l |-> LTable(r), m |-> MTable(r)]))
Machine == /\ Mode = "machine" /\ ~done /\ Len(hist) < MaxOps + 1
           /\ (OpAdd \/ OpAnd \/ OpAddPoint \/ OpExpand \/ OpTranslate \/ OpTransform \/ OpFromPoints)
           /\ UNCHANGED done
EmitHist == /\ Mode = "machine" /\ ~done /\ Len(hist) = MaxOps + 1 /\ done' = TRUE /\ UNCHANGED <<r, hist>>
            /\ PrintT("@@" \o ToJson([hist |-> hist]))
Next == EmitTables \/ Machine \/ EmitHist
Spec == Init /\ [][Next]_vars

\* ---- laws of the register machine (MC in machine mode, N = 1): every reachable rectangle is well-formed, Add and AddPoint
\* only grow the rectangle, And only shrinks it (or gives the zero rectangle), Translate and the lattice isometries keep the area
WellFormed == r.x0 <= r.x1 /\ r.y0 <= r.y1
LastOp == hist'[Len(hist')]
Isometry(m) == m[1] * m[5] - m[2] * m[4] \in {1, 0 - 1} /\ m[1] * m[2] + m[4] * m[5] = 0 /\ m[1] * m[1] + m[4] * m[4] = 1
MachineLaws == [][hist' # hist =>
                    /\ (LastOp.op \in {"Add", "AddPoint"} => Contains(r', r))
                    /\ (LastOp.op = "And" => (r' = Zero \/ Contains(r, r')))
                    /\ (LastOp.op = "Translate" => Area(r') = Area(r))
                    /\ (LastOp.op = "Expand" => (Contains(r', r) \/ Contains(r, r')))
                    /\ (LastOp.op = "Transform" /\ Isometry(LastOp.arg) => Area(r') = Area(r))]_vars

\* ---- design-level laws (MC, small N): the point-set definitions satisfy the lattice laws a user relies on -----------
AndInBoth == \A q \in Rects : Overlaps(r, q) => (Contains(r, And(r, q)) /\ Contains(q, And(r, q)))
AndIsZeroIffDisjoint == \A q \in Rects : Overlaps(r, q) <=> And(r, q) # Zero
AddContainsBoth == \A q \in Rects : Contains(Add(r, q), r) /\ Contains(Add(r, q), q)
AddLeast == \A q \in Rects, s \in Rects : (Contains(s, r) /\ Contains(s, q)) => Contains(s, Add(r, q))
AndGreatest == \A q \in Rects, s \in Rects : (Contains(r, s) /\ Contains(q, s) /\ ~Empty(s)) => Contains(And(r, q), s)
OverlapsImpliesTouches == \A q \in Rects : Overlaps(r, q) => Touches(r, q)
ContainsImpliesOverlaps == \A q \in Rects : (Contains(r, q) /\ ~Empty(q)) => Overlaps(r, q)
Commutes == \A q \in Rects : Add(r, q) = Add(q, r) /\ And(r, q) = And(q, r) /\ Overlaps(r, q) = Overlaps(q, r) /\ Touches(r, q) = Touches(q, r)
ClosestInside == \A p \in Pts : InClosed(r, Closest(r, p)) /\ (InClosed(r, p) <=> Closest(r, p) = p)
AddPointLeast == \A p \in Pts : InClosed(AddPoint(r, p), p) /\ Contains(AddPoint(r, p), r) /\ (InClosed(r, p) => AddPoint(r, p) = r)
LineEndpoints == \A a \in Pts, b \in Pts : (InClosed(r, a) \/ InClosed(r, b)) => LineClass(r, a, b) = 1
LineSymmetric == \A a \in Pts, b \in Pts : LineClass(r, a, b) = LineClass(r, b, a)
=============================================================================
