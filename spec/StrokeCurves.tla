---------------------------- MODULE StrokeCurves ----------------------------
(* C04, curved paths: the weak but sound classification of a sample point with respect to a path of     *)
(* Beziers / elliptical arcs / lines stroked with ROUND cap and ROUND join, for which the statement says    *)
(* "it is exactly the w/2-neighbourhood of the path".                                                       *)
(*                                                                                                          *)
(* The specification knows the path exactly at its WAY-POINTS: Bernstein form at t = j/64 (cubics) or j/32   *)
(* (quadratics) for integer control points, the 20 integer points of the circle of radius 25 mapped onto the *)
(* ellipse with semi-axes 250 x 125 (rotated by the angle with cos = 3/5, sin = 4/5, or not at all).         *)
(* Between two consecutive way-points the path stays within GAP of their chord and every point of the chord  *)
(* is within GAP of the path (|D| h^2/4 for a parabola, 3/4 h^2 max|D1|,|D2| for a cubic, the stretched       *)
(* sagitta for the ellipse).  With r = half width, Tol the tolerance of the statement and Slack the           *)
(* quantisation of the way-points (all in Q units, integers):                                                *)
(*    in   <= the sample is within r - Tol - GAP - Slack of a chord (lower bound of the chord length used)     *)
(*    out  <= the sample is farther than r + Tol + GAP + Slack from every chord (upper bound used)           *)
(*    free    otherwise.                                                                                      *)
(* The module enumerates the scenarios (Spec) and provides the judging operators for Trace_StrokeCurves.     *)
EXTENDS Lattice, TLC, Json, Randomization

CONSTANTS Fam,     \* "cubic2" (two inflection points inside (0,1)) | "cubic" | "corner" | "arc" | "loop" | "rcorner"
          Num      \* size of the random subsets

VARIABLES cv, done
vars == <<cv, done>>

\* ---- Beziers (control points on the lattice 0,5,..,60) -----------------------------------------------------------
QB == 32                 \* quantisation: units per lattice unit
RoundDiv(a, b) == (2 * a + b) \div (2 * b)
CubeAt(p, j, c) == LET m == 64 - j IN m * m * m * p[1][c] + 3 * j * m * m * p[2][c] + 3 * j * j * m * p[3][c] + j * j * j * p[4][c]   \* B(j/64) * 64^3
QuadAt(p, j, c) == LET m == 32 - j IN m * m * p[1][c] + 2 * j * m * p[2][c] + j * j * p[3][c]                                          \* B(j/32) * 32^2
BezWP(p) == IF Len(p) = 4 THEN [j \in 1..65 |-> <<RoundDiv(CubeAt(p, j - 1, 1) * QB, 262144), RoundDiv(CubeAt(p, j - 1, 2) * QB, 262144)>>]
            ELSE [j \in 1..33 |-> <<RoundDiv(QuadAt(p, j - 1, 1) * QB, 1024), RoundDiv(QuadAt(p, j - 1, 2) * QB, 1024)>>]
VLen(v) == ISqrtHi(v[1] * v[1] + v[2] * v[2])
D2(a, b, c) == <<a[1] - 2 * b[1] + c[1], a[2] - 2 * b[2] + c[2]>>
\* distance between a piece over a parameter interval h and its chord, in Q units, rounded up
BezGap(p) == IF Len(p) = 4 THEN (3 * MaxI(VLen(D2(p[1], p[2], p[3])), VLen(D2(p[2], p[3], p[4]))) * QB) \div (4 * 4096) + 1
             ELSE (VLen(D2(p[1], p[2], p[3])) * QB) \div 4096 + 1
LinePt(p) == <<QB * p[1], QB * p[2]>>

\* ---- ellipse arcs ------------------------------------------------------------------------------------------------------
QA == 4
Quadrant == << <<25,0>>, <<24,7>>, <<20,15>>, <<15,20>>, <<7,24>> >>
CirclePt(i) == LET q == (i \div 5) % 4 p == Quadrant[(i % 5) + 1] IN
               CASE q = 0 -> p [] q = 1 -> <<0 - p[2], p[1]>> [] q = 2 -> <<0 - p[1], 0 - p[2]>> [] q = 3 -> <<p[2], 0 - p[1]>>
\* the ellipse (2x, y) * 5 rotated by (3/5, 4/5): (6x - 4y, 8x + 3y) ; unrotated: (10x, 5y) ; semi-axes 250 and 125
EllPt(rot, p) == IF rot THEN <<6 * p[1] - 4 * p[2], 8 * p[1] + 3 * p[2]>> ELSE <<10 * p[1], 5 * p[2]>>
ArcIdx(a, j, ccw) == IF ccw THEN (a + j) % 20 ELSE (a + 20 - (j % 20)) % 20
ArcWPu(c) == [j \in 1..(c.n + 1) |-> EllPt(c.rot, CirclePt(ArcIdx(c.a, j - 1, c.ccw)))]
ArcLarge(c) == c.n > 10
\* largest parameter step between neighbouring integer points: 20.61 degrees; 1 - cos(10.31 deg) < 0.01615 ; * 250 < 4.04
ArcGap == 5 * QA

\* ---- rounded corner: line, quarter circle of radius 10 (through the integer points (6,2), (8,4) resp. their mirror images),
\* line; stroked with half width 15 (> radius: the inner offset radius is negative), 10 (= radius) or 6
RCornerPts(ccw) == LET y(v) == IF ccw THEN v ELSE 0 - v IN
                   << <<-25, 0>>, <<0, 0>>, <<6, y(2)>>, <<8, y(4)>>, <<10, y(10)>>, <<10, y(40)>> >>
\* sagitta of the longest chord (36.87 degrees on radius 10): 10 (1 - cos 18.435 deg) < 0.5132
RCornerGap == 17

\* ---- scenario -> way-point polyline, gap, radii (Q units) ------------------------------------------------------------------
\* cv.type = "bez"   : pts                      one quadratic or cubic
\*           "corner": pre, pts, post           (optional) straight segment from pre, the curve, (optional) straight segment to post
\*           "arc"   : a, n, ccw, rot
\*           "rcorner": ccw, hw                 line, quarter circle, line
\* a "bez" with closed = TRUE is a one-segment loop (last control point = first) closed by z: the way-points are the same
QOf(c) == IF c.type = "arc" THEN QA ELSE QB
WPof(c) == CASE c.type = "bez" -> BezWP(c.pts)
             [] c.type = "corner" -> (IF c.pre # <<>> THEN <<LinePt(c.pre)>> ELSE <<>>) \o BezWP(c.pts) \o (IF c.post # <<>> THEN <<LinePt(c.post)>> ELSE <<>>)
             [] c.type = "arc" -> LET w == ArcWPu(c) IN [j \in 1..Len(w) |-> <<QA * w[j][1], QA * w[j][2]>>]
             [] c.type = "rcorner" -> LET w == RCornerPts(c.ccw) IN [j \in 1..Len(w) |-> LinePt(w[j])]
GapOf(c) == IF c.type = "arc" THEN ArcGap ELSE IF c.type = "rcorner" THEN RCornerGap ELSE BezGap(c.pts)
Slack == 1
\* Tol: 1/16 lattice unit for Beziers (half width 2), 1 unit for the ellipse (half width 20)
TolOf(c) == IF c.type = "arc" THEN QA ELSE 2
RIn(c, hw) == hw * QOf(c) - TolOf(c) - GapOf(c) - Slack
ROut(c, hw) == hw * QOf(c) + TolOf(c) + GapOf(c) + Slack

\* s is certainly within r of the segment ab (lo = lower bound of |ab|) / certainly farther than r (hi = upper bound)
NearSeg(a, b, s, r, lo) ==
    IF a = b THEN Len2(a, s) <= r * r
    ELSE LET t == DotP(a, b, s) l == Len2(a, b) IN
         IF t <= 0 THEN Len2(a, s) <= r * r
         ELSE IF t >= l THEN Len2(b, s) <= r * r
         ELSE Abs(Cross(a, b, s)) <= r * lo
FarSeg(a, b, s, r, hi) ==
    IF a = b THEN Len2(a, s) > r * r
    ELSE LET t == DotP(a, b, s) l == Len2(a, b) IN
         IF t <= 0 THEN Len2(a, s) > r * r
         ELSE IF t >= l THEN Len2(b, s) > r * r
         ELSE Abs(Cross(a, b, s)) > r * hi
\* 1 in, 0 out, 2 free ; w = way-points, lo/hi = bounds of the chord lengths
Class(w, lo, hi, s, rin, rout) ==
    IF rin > 0 /\ \E j \in 1..(Len(w) - 1) : NearSeg(w[j], w[j + 1], s, rin, lo[j]) THEN 1
    ELSE IF \A j \in 1..(Len(w) - 1) : FarSeg(w[j], w[j + 1], s, rout, hi[j]) THEN 0
    ELSE 2

\* ---- features -------------------------------------------------------------------------------------------------------------
Leg(p, i) == <<p[i + 1][1] - p[i][1], p[i + 1][2] - p[i][2]>>
VDot(u, v) == u[1] * v[1] + u[2] * v[2]
Fold(p) == \/ \E i \in 1..(Len(p) - 1) : Leg(p, i) = <<0, 0>>
           \/ \E i, j \in 1..(Len(p) - 1) : i < j /\ VDot(Leg(p, i), Leg(p, j)) < 0
\* number of inflection points: roots of a t^2 + b t + c with (coordinates / 5 keep the products in range)
Co(p, i, c) == p[i][c] \div 5
InflA(p) == LET ax == 0 - Co(p,1,1) + 3 * Co(p,2,1) - 3 * Co(p,3,1) + Co(p,4,1) ay == 0 - Co(p,1,2) + 3 * Co(p,2,2) - 3 * Co(p,3,2) + Co(p,4,2)
                bx == Co(p,1,1) - 2 * Co(p,2,1) + Co(p,3,1) by == Co(p,1,2) - 2 * Co(p,2,2) + Co(p,3,2)
                cx == Co(p,2,1) - Co(p,1,1) cy == Co(p,2,2) - Co(p,1,2) IN
            <<ay * bx - ax * by, ay * cx - ax * cy, by * cx - bx * cy>>
\* both roots strictly inside (0,1)
TwoInfl(p) == Len(p) = 4 /\ LET k == InflA(p) a == k[1] b == k[2] c == k[3] IN
              /\ a # 0 /\ b * b - 4 * a * c > 0
              /\ c * a > 0 /\ (a + b + c) * a > 0
              /\ 0 - b * a > 0 /\ 0 - b * a < 2 * a * a
\* the arc spans one step less or more than half of the ellipse (about 160..200 degrees, not exactly 180)
NearHalfTurn(c) == c.n \in {9, 11}
Features == CASE cv.type = "arc" -> [fold |-> FALSE, twoinfl |-> FALSE, nearhalf |-> NearHalfTurn(cv)]
              [] cv.type = "rcorner" -> [fold |-> FALSE, twoinfl |-> FALSE, nearhalf |-> FALSE]
              [] OTHER -> [fold |-> Fold(cv.pts), twoinfl |-> TwoInfl(cv.pts), nearhalf |-> FALSE]

\* ---- enumeration -------------------------------------------------------------------------------------------------------------
Grid == {<<5 * x, 5 * y>> : x \in 0..12, y \in 0..12}
NotAPoint(p) == \E i \in 2..Len(p) : p[i] # p[1]
Demo == { << <<0,0>>, <<50,60>>, <<10,60>>, <<60,0>> >>, << <<0,0>>, <<45,30>>, <<15,60>>, <<60,0>> >>, << <<0,0>>, <<60,20>>, <<10,60>>, <<60,10>> >> }
Bez(p) == [type |-> "bez", pts |-> p]
Corner(pre, p, post) == [type |-> "corner", pre |-> pre, pts |-> p, post |-> post]
\* curves for the corner family: the start direction differs from the end direction
CornerCurves == { << <<20,20>>, <<30,20>>, <<40,20>>, <<40,30>> >>,      \* starts along +x, ends along +y
                  << <<20,20>>, <<20,30>>, <<30,40>>, <<40,40>> >>,      \* starts along +y, ends along +x
                  << <<20,20>>, <<40,20>>, <<40,40>> >>,                  \* quadratic, +x to +y
                  << <<20,20>>, <<30,30>>, <<40,30>>, <<50,20>> >> }     \* arch, (1,1) to (1,-1)
Dirs == {<<10,0>>, <<0,10>>, <<-10,0>>, <<0,-10>>, <<10,10>>, <<-10,10>>, <<10,-10>>}
Plus(p, d) == <<p[1] + d[1], p[2] + d[2]>>
Corners == {Corner(<<>>, p, Plus(p[Len(p)], d)) : p \in CornerCurves, d \in Dirs}
           \cup {Corner(Plus(p[1], d), p, <<>>) : p \in CornerCurves, d \in Dirs}
           \cup {Corner(Plus(p[1], <<-10, 0>>), p, Plus(p[Len(p)], d)) : p \in CornerCurves, d \in {<<10,0>>, <<0,10>>}}
\* a straight segment must not run back over the curve's end tangent (180 degree turn: the neighbourhood is the same, but
\* the builder and the stroker treat reversals specially; they belong to the polyline part of C04)
NoReversal(c) == /\ (c.post # <<>> => LET n == Len(c.pts) u == Leg(c.pts, n - 1) v == <<c.post[1] - c.pts[n][1], c.post[2] - c.pts[n][2]>> IN
                                       ~(u[1] * v[2] - u[2] * v[1] = 0 /\ VDot(u, v) < 0))
                 /\ (c.pre # <<>> => LET u == <<c.pts[1][1] - c.pre[1], c.pts[1][2] - c.pre[2]>> v == Leg(c.pts, 1) IN
                                       ~(u[1] * v[2] - u[2] * v[1] = 0 /\ VDot(u, v) < 0))
Arcs == {[type |-> "arc", a |-> a, n |-> n, ccw |-> w, rot |-> r] : a \in 0..19, n \in 1..19, w \in BOOLEAN, r \in BOOLEAN}
\* one-segment loops with a corner at the closing point (teardrops), both orientations
LoopCtl == {<<50,20>>, <<60,20>>, <<50,30>>, <<60,10>>}
Mirror(p) == <<p[2], p[1]>>
Loops == {[type |-> "bez", pts |-> << <<20,20>>, a, Mirror(b), <<20,20>> >>, closed |-> TRUE] : a \in LoopCtl, b \in LoopCtl}
         \cup {[type |-> "bez", pts |-> << <<20,20>>, Mirror(b), a, <<20,20>> >>, closed |-> TRUE] : a \in LoopCtl, b \in LoopCtl}
RCorners == {[type |-> "rcorner", ccw |-> w, hw |-> h] : w \in BOOLEAN, h \in {15, 10, 6}}
Choice == CASE Fam = "loop" -> Loops
            [] Fam = "rcorner" -> RCorners
            [] Fam = "cubic2" -> {Bez(p) : p \in Demo \cup {x \in RandomSubset(Num, [1..4 -> Grid]) : TwoInfl(x)}}
            [] Fam = "cubic"  -> {Bez(p) : p \in {x \in RandomSubset(Num, [1..4 -> Grid]) \cup RandomSubset(Num \div 3, [1..3 -> Grid]) : NotAPoint(x) /\ ~Fold(x)}}
            [] Fam = "corner" -> {c \in Corners : NoReversal(c)}
            [] Fam = "arc"    -> RandomSubset(Num, Arcs)
Init == cv \in Choice /\ done = FALSE
ArcGeom(c) == LET w == ArcWPu(c) IN [s |-> w[1], e |-> w[Len(w)], rx |-> 250, ry |-> 125, rot |-> c.rot, large |-> ArcLarge(c), sweep |-> c.ccw]
HwOf(c) == IF c.type = "arc" THEN 20 ELSE IF c.type = "rcorner" THEN c.hw ELSE 2
Scenario == IF cv.type = "arc" THEN [cv |-> cv, f |-> Features, hw |-> HwOf(cv), g |-> ArcGeom(cv)] ELSE [cv |-> cv, f |-> Features, hw |-> HwOf(cv)]
Emit == ~done /\ done' = TRUE /\ UNCHANGED cv /\ PrintT("@@" \o ToJson(Scenario))
Spec == Init /\ [][Emit]_vars

\* ---- model-level laws (invariant of every generation run) -----------------------------------------------------------------------
Laws ==
    CASE cv.type = "arc" ->
            /\ \A i \in 0..19 : LET a == CirclePt(i) b == CirclePt((i + 1) % 20) IN
                  a[1] * a[1] + a[2] * a[2] = 625 /\ a[1] * b[2] - a[2] * b[1] > 0
            \* every way-point lies on the ellipse: unrotated x^2/4 + y^2 = 125^2 ; rotated: rotate back by (3/5, -4/5) first
            /\ \A j \in 1..(cv.n + 1) : LET p == ArcWPu(cv)[j]
                                            u == IF cv.rot THEN (3 * p[1] + 4 * p[2]) \div 5 ELSE p[1]
                                            v == IF cv.rot THEN (3 * p[2] - 4 * p[1]) \div 5 ELSE p[2] IN
                                        u * u + 4 * v * v = 4 * 125 * 125
      [] cv.type = "rcorner" -> LET w == RCornerPts(cv.ccw) c == <<0, IF cv.ccw THEN 10 ELSE 0 - 10>> IN
            /\ \A j \in 2..5 : Len2(c, w[j]) = 100                              \* the arc points lie on the circle around c
            /\ RIn(cv, cv.hw) > 0
      [] OTHER -> LET p == cv.pts w == BezWP(p) IN
            /\ w[1] = LinePt(p[1]) /\ w[Len(w)] = LinePt(p[Len(p)])
            /\ RIn(cv, 2) > 0
            /\ (Len(p) = 4 => \A j \in 0..61 : \A c \in 1..2 :
                  CubeAt(p, j + 3, c) - 3 * CubeAt(p, j + 2, c) + 3 * CubeAt(p, j + 1, c) - CubeAt(p, j, c) = 6 * (p[4][c] - 3 * p[3][c] + 3 * p[2][c] - p[1][c]))
=============================================================================
