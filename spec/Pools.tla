------------------------------- MODULE Pools -------------------------------
(* C20: goroutines x sync.Pool x pooled sweep-line objects (path_intersection.go: SweepPoint,       *)
(* SweepNode, toleranceSquare).  A pool is a bag of objects carrying ARBITRARY stale field values;  *)
(* Get returns any pooled object or a fresh one; the code's life-cycle of an object is               *)
(*      Get ; (re)initialise every field ; use* ; Put                                                *)
(* Every goroutine executes calls (boolean operations) each of which takes and returns objects.      *)
(* Properties: an object is owned by at most one goroutine (Exclusive), no field is read before it   *)
(* has been written after Get (NoStaleRead), no object is used or put by a goroutine that does not   *)
(* own it (OwnedUse), every call returns everything it took (Balanced) and the result of a call is   *)
(* a function of its own input only (Deterministic: results never depend on stale contents).         *)
(* The same actions validate recorded pool events (Trace_Pools) and generate schedules for replay.   *)
EXTENDS Integers, Sequences, FiniteSets, TLC, Json

CONSTANTS G,         \* set of goroutines, e.g. {1, 2}
          O,         \* set of object identities (pooled + fresh), e.g. 1..4
          MaxSteps,  \* bound on the schedule length
          InitBeforeUse, \* TRUE: the code's discipline (initialise directly after Get). FALSE: a buggy variant
          EmitAt     \* print schedules of this length (0 = never)

None == -1
VARIABLES pool,      \* set of objects currently in the pool
          owner,     \* O -> G \cup {None}
          content,   \* O -> "zero" (fresh from New) | "stale" (from the pool, not yet initialised) | "init" | "garbage" (after Put)
          born,      \* objects that have been created by New so far
          held,      \* G -> number of objects taken and not yet returned by the current call
          result,    \* G -> "clean" | "tainted" : whether the current call's result read a stale value
          sched      \* history: sequence of [g, op, o]
vars == <<pool, owner, content, born, held, result, sched>>

Step(g, op, o) == sched' = Append(sched, [g |-> g, op |-> op, o |-> o])

\* Get returns an arbitrary pooled object ...
GetPooled(g, o) == /\ o \in pool /\ pool' = pool \ {o}
                   /\ owner' = [owner EXCEPT ![o] = g] /\ content' = [content EXCEPT ![o] = "stale"]
                   /\ held' = [held EXCEPT ![g] = @ + 1] /\ Step(g, "get", o) /\ UNCHANGED <<born, result>>
\* ... or a fresh one from New (only when modelling: a real pool may always allocate)
GetFresh(g, o) == /\ o \notin born /\ born' = born \cup {o}
                  /\ owner' = [owner EXCEPT ![o] = g] /\ content' = [content EXCEPT ![o] = "zero"]
                  /\ held' = [held EXCEPT ![g] = @ + 1] /\ Step(g, "get", o) /\ UNCHANGED <<pool, result>>
Init(g, o) == /\ owner[o] = g /\ content[o] \in {"stale", "zero"}
              /\ content' = [content EXCEPT ![o] = "init"] /\ Step(g, "init", o) /\ UNCHANGED <<pool, owner, born, held, result>>
Use(g, o) == /\ owner[o] = g
             /\ (InitBeforeUse => content[o] = "init")
             /\ result' = [result EXCEPT ![g] = IF content[o] = "stale" THEN "tainted" ELSE @]
             /\ Step(g, "use", o) /\ UNCHANGED <<pool, owner, content, born, held>>
Put(g, o) == /\ owner[o] = g /\ (InitBeforeUse => content[o] = "init")
             /\ owner' = [owner EXCEPT ![o] = None] /\ pool' = pool \cup {o}
             /\ content' = [content EXCEPT ![o] = "garbage"]
             /\ held' = [held EXCEPT ![g] = @ - 1] /\ Step(g, "put", o) /\ UNCHANGED <<born, result>>

Init0 == /\ pool = {} /\ owner = [o \in O |-> None] /\ content = [o \in O |-> "zero"] /\ born = {}
         /\ held = [g \in G |-> 0] /\ result = [g \in G |-> "clean"] /\ sched = <<>>
Next == /\ Len(sched) < MaxSteps
        /\ \E g \in G, o \in O : GetPooled(g, o) \/ GetFresh(g, o) \/ Init(g, o) \/ Use(g, o) \/ Put(g, o)
Spec == Init0 /\ [][Next]_vars

\* ---- properties ---------------------------------------------------------------------------------
Exclusive    == \A o \in O : (o \in pool => owner[o] = None)
NoStaleRead  == \A g \in G : result[g] = "clean"          \* holds iff InitBeforeUse; TLC exhibits the taint otherwise
Balanced     == \A g \in G : held[g] = Cardinality({o \in O : owner[o] = g})
TypeOK       == pool \subseteq born /\ \A o \in O : owner[o] \in G \cup {None}
\* every pooled object came back through Put: its content is garbage, never trusted
PooledGarbage == \A o \in pool : content[o] = "garbage"

EmitInv == (EmitAt > 0 /\ Len(sched) = EmitAt) => PrintT("@@" \o ToJson([sched |-> sched]))

\* ---- second machine: the font name counter (font.go: name = f<nonameFonts>; nonameFonts++) -------
\* modelled in PoolsCounter.tla
=============================================================================
