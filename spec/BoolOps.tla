------------------------------ MODULE BoolOps ------------------------------
(* C01 / C02: the region algebra of paths.  A path's abstract value is its winding function on a  *)
(* fixed set of sample points; the boolean operations are defined cell-wise on "filled under      *)
(* NonZero"; Settle(rule) maps winding w to 1 if Fills(rule, w) else 0.  The module is used as    *)
(*  - a model (MC): the algebraic laws of the region algebra hold for the expected cells          *)
(*  - a scenario generator: operands p, q (sequences of lattice contours) with the expected cells *)
(*    of And/Or/Xor/Not/DivideBy and of Settle under the four fill rules, three-valued:           *)
(*    0 = must be unfilled, 1 = must be filled, 2 = free (the sample lies on a boundary).         *)
EXTENDS Lattice, TLC, Json, Randomization

CONSTANTS N,        \* lattice 0..N
          K,        \* vertices per contour
          NC,       \* contours per operand (1 or 2)
          Mode,     \* "all": every operand ; "random": RandomSubset(Num, ..) per operand
          Num,
          What      \* "bool" (pairs, five operations) | "settle" (single operand, four rules)

S == 15     \* scale: lattice point (i,j) is (15 i, 15 j); samples lie strictly inside lattice cells
Pt == (0..N) \X (0..N)
\* three sample points per lattice cell, none on a lattice line; whether one lies on an edge is decided exactly
Offs == << <<5, 3>>, <<11, 8>>, <<4, 12>> >>
NS == N * N * 3
Sample(k) == LET c == (k - 1) \div 3 o == Offs[((k - 1) % 3) + 1]
             IN << S * (c % N) + o[1], S * (c \div N) + o[2] >>

Contours == [1..K -> Pt]
VARIABLES p, q, done
vars == <<p, q, done>>

Operands == IF NC = 1 THEN {<<c>> : c \in Contours} ELSE {<<c, d>> : c \in Contours, d \in Contours}
Choice == IF Mode = "all" THEN Operands
          ELSE IF NC = 1 THEN {<<c>> : c \in RandomSubset(Num, Contours)}
          ELSE {<<c, d>> : c \in RandomSubset(Num, Contours), d \in RandomSubset(3, Contours)}

P == ScaleP(S, p)
Q == ScaleP(S, q)
B(x) == IF x THEN 1 ELSE 0
FREE == 99
\* winding vector of a scaled path over the samples; FREE where the sample lies on the path
WVec(path) == [k \in 1..NS |-> IF OnPath(path, Sample(k)) THEN FREE ELSE Wind(path, Sample(k))]
\* expected cell under the binary operation op, given the two winding values
CellW(op, wa, wb) ==
    IF wa = FREE \/ wb = FREE THEN 2
    ELSE LET a == wa # 0 b == wb # 0 IN
         CASE op = "and" -> B(a /\ b)
           [] op = "or"  -> B(a \/ b)
           [] op = "xor" -> B(a # b)
           [] op = "not" -> B(a /\ ~b)
           [] op = "div" -> B(a)
CellsW(op, wp, wq) == [k \in 1..NS |-> CellW(op, wp[k], wq[k])]
SettleW(rule, w) == IF w = FREE THEN 2 ELSE B(Fills(rule, w))

\* ---- scenario features (exact predicates; used to steer generation and as known-finding signatures) -------
Collinear(c) == \A i, j, k \in 1..Len(c) : Cross(c[i], c[j], c[k]) = 0          \* zero-area contour (spike or point)
HasDegenerate(path) == \E k \in 1..Len(path) : Collinear(path[k])
Edges(path) == UNION {{<<path[k][i], Nxt(path[k], i)>> : i \in 1..Len(path[k])} : k \in 1..Len(path)}
\* two edges overlap in more than one point (collinear, interiors intersect)
Overlap(e, f) == /\ e[1] # e[2] /\ f[1] # f[2]
                 /\ Cross(e[1], e[2], f[1]) = 0 /\ Cross(e[1], e[2], f[2]) = 0
                 /\ LET d == IF e[1][1] # e[2][1] THEN 1 ELSE 2
                        elo == MinI(e[1][d], e[2][d]) ehi == MaxI(e[1][d], e[2][d])
                        flo == MinI(f[1][d], f[2][d]) fhi == MaxI(f[1][d], f[2][d])
                    IN MaxI(elo, flo) < MinI(ehi, fhi)
SharedOverlap(a, b) == \E e \in Edges(a), f \in Edges(b) : Overlap(e, f)
EdgeAt(a, k, i) == <<a[k][i], Nxt(a[k], i)>>
EdgeIdx(a) == UNION {{<<k, i>> : i \in 1..Len(a[k])} : k \in 1..Len(a)}
SelfOverlap(a) == \E x \in EdgeIdx(a), y \in EdgeIdx(a) : x # y /\ Overlap(EdgeAt(a, x[1], x[2]), EdgeAt(a, y[1], y[2]))
\* a vertex lies in the relative interior of an edge (of either operand): snapping / splitting is exercised
Verts(path) == UNION {{path[k][i] : i \in 1..Len(path[k])} : k \in 1..Len(path)}
TJunction(a, b) == \E v \in Verts(a) \cup Verts(b), e \in Edges(a) \cup Edges(b) : e[1] # e[2] /\ v # e[1] /\ v # e[2] /\ OnSeg(e[1], e[2], v)
BBox(path) == LET xs == {v[1] : v \in Verts(path)} ys == {v[2] : v \in Verts(path)}
              IN <<SetMin(xs), SetMin(ys), SetMax(xs), SetMax(ys)>>
BBDisjoint(a, b) == LET x == BBox(a) y == BBox(b) IN x[3] < y[1] \/ y[3] < x[1] \/ x[4] < y[2] \/ y[4] < x[2]
Features == [pdeg |-> HasDegenerate(p), qdeg |-> HasDegenerate(q), shared |-> SharedOverlap(p, q),
             selfov |-> SelfOverlap(p) \/ SelfOverlap(q), bbdisj |-> BBDisjoint(p, q), tj |-> TJunction(p, q)]

\* ---- register programs: the result of one operation is fed back as operand of the next -------------------------
\* What = "prog": q holds two operands <<q1, q2>>; the program is  (p op1 q1) op2 q2  for all op1, op2 in and/or/xor/not
ProgOps == <<"and", "or", "xor", "not">>
Cell2(op, c1, wb) == IF c1 = 2 \/ wb = FREE THEN 2 ELSE CellW(op, c1, wb)       \* c1 in {0,1} acts as a winding value
ProgScenario ==
    LET wp == WVec(P) w1 == WVec(ScaleP(S, q[1])) w2 == WVec(ScaleP(S, q[2]))
        all == p \o q[1] \o q[2]
    IN [p |-> p, q1 |-> q[1], q2 |-> q[2],
        f |-> [pdeg |-> HasDegenerate(all), qdeg |-> FALSE, shared |-> SelfOverlap(all), selfov |-> FALSE, bbdisj |-> FALSE, tj |-> TJunction(all, <<>>)],
        cells |-> [i \in 1..4 |-> [j \in 1..4 |-> [k \in 1..NS |-> Cell2(ProgOps[j], CellW(ProgOps[i], wp[k], w1[k]), w2[k])]]]]

Scenario ==
    IF What = "prog" THEN ProgScenario ELSE
    IF What = "bool"
    THEN LET wp == WVec(P) wq == WVec(Q) IN
         [p |-> p, q |-> q, wp |-> wp, wq |-> wq, f |-> Features,
          and |-> CellsW("and", wp, wq), or |-> CellsW("or", wp, wq), xor |-> CellsW("xor", wp, wq),
          not |-> CellsW("not", wp, wq), div |-> CellsW("div", wp, wq)]
    ELSE LET wp == WVec(P) IN
         [p |-> p, wp |-> wp, f |-> [pdeg |-> HasDegenerate(p), selfov |-> SelfOverlap(p), tj |-> TJunction(p, <<>>)], r0 |-> [k \in 1..NS |-> SettleW(0, wp[k])], r1 |-> [k \in 1..NS |-> SettleW(1, wp[k])],
          r2 |-> [k \in 1..NS |-> SettleW(2, wp[k])], r3 |-> [k \in 1..NS |-> SettleW(3, wp[k])]]

\* (Measured: choosing q inside the Emit action and printing Scenario' is 20x slower than enumerating the
\* pairs as initial states, because primed LET definitions are not cached by TLC.)
Init == /\ p \in Choice
        /\ IF What = "bool" THEN q \in Choice
           ELSE IF What = "prog" THEN q \in {<<a, b>> : a \in Choice, b \in RandomSubset(3, Operands)}
           ELSE q = <<>>
        /\ done = FALSE
Emit == /\ ~done /\ done' = TRUE /\ UNCHANGED <<p, q>>
        /\ PrintT("@@" \o ToJson(Scenario))
Spec == Init /\ [][Emit]_vars

Header == [hdr |-> TRUE, S |-> S, N |-> N, samples |-> [k \in 1..NS |-> Sample(k)]]
ASSUME PrintT("@@" \o ToJson(Header))

\* ---- model-level laws of the region algebra (checked on the expected cells, MC config) -----------------
LawsOK == done => LET wp == WVec(P) wq == WVec(Q) IN \A k \in 1..NS : (wp[k] # FREE /\ wq[k] # FREE) =>
    LET a == CellW("and", wp[k], wq[k]) o == CellW("or", wp[k], wq[k]) x == CellW("xor", wp[k], wq[k])
        n == CellW("not", wp[k], wq[k]) d == CellW("div", wp[k], wq[k]) IN
    /\ a <= o                                   \* P and Q  is a subset of  P or Q
    /\ x = o - a                                \* xor = or minus and   (inclusion-exclusion, cell-wise)
    /\ n = d - a                                \* not = P minus and
    /\ (p = q => (a = d /\ o = d /\ x = 0 /\ n = 0))      \* P op P
    /\ a + o = d + B(wq[k] # 0)                 \* |and| + |or| = |P| + |Q|
    /\ CellW("and", wq[k], wp[k]) = a /\ CellW("or", wq[k], wp[k]) = o /\ CellW("xor", wq[k], wp[k]) = x   \* commutativity
SettleLaws == done => LET wp == WVec(P) IN \A k \in 1..NS : wp[k] # FREE =>
    /\ SettleW(0, wp[k]) = B(SettleW(2, wp[k]) = 1 \/ SettleW(3, wp[k]) = 1)     \* NonZero = Positive or Negative
    /\ SettleW(2, wp[k]) + SettleW(3, wp[k]) <= 1
    /\ (SettleW(1, wp[k]) = 1 => SettleW(0, wp[k]) = 1)                         \* EvenOdd is a subset of NonZero
=============================================================================
