------------------------- MODULE Trace_StrokeCurves -------------------------
(* Judges what the real Path.Stroke(w, RoundCap, RoundJoin, tol) returned for the scenarios of StrokeCurves.     *)
(* One event per call: cv (the path as printed by StrokeCurves!Scenario), hw (half width in lattice units) and     *)
(* samples = <<x, y, f>> : a point of the quantisation grid (Q units; chosen by the harness near the boundary of   *)
(* the neighbourhood, but any choice is admissible) and f = 1 iff the independent winding oracle finds it inside    *)
(* the returned outline (NonZero).  The specification classifies every sample exactly (StrokeCurves!Class) and      *)
(* demands f = 1 for class in and f = 0 for class out.  Events are independent: every event is an initial state     *)
(* and one Judge step.                                                                                             *)
EXTENDS StrokeCurves
Trace == ndJsonDeserialize("trace_strokecurves.ndjson")
VARIABLES e, judged
tvars == <<e, judged, cv, done>>

Bad(ev) == LET w == WPof(ev.cv)
               lo == [j \in 1..(Len(w) - 1) |-> ISqrtLo(Len2(w[j], w[j + 1]))]
               hi == [j \in 1..(Len(w) - 1) |-> ISqrtHi(Len2(w[j], w[j + 1]))]
               rin == RIn(ev.cv, ev.hw) rout == ROut(ev.cv, ev.hw) IN
           {k \in 1..Len(ev.samples) : LET s == ev.samples[k] c == Class(w, lo, hi, <<s[1], s[2]>>, rin, rout) IN
                                        (c = 1 /\ s[3] = 0) \/ (c = 0 /\ s[3] = 1)}
\* diagnosis: the uncovered samples that stay "in" when the covering radius is reduced by 15 % of the half width (arcs
\* only: the library offsets an ellipse by an ellipse with radii rx -+ w/2, which is not its parallel curve)
Shallow(c) == IF c.type = "arc" THEN 3 * QA ELSE 0
Deep(ev) == LET w == WPof(ev.cv)
                lo == [j \in 1..(Len(w) - 1) |-> ISqrtLo(Len2(w[j], w[j + 1]))]
                hi == [j \in 1..(Len(w) - 1) |-> ISqrtHi(Len2(w[j], w[j + 1]))]
                rin == RIn(ev.cv, ev.hw) - Shallow(ev.cv) rout == ROut(ev.cv, ev.hw) IN
            Cardinality({k \in 1..Len(ev.samples) : ev.samples[k][3] = 0 /\ Class(w, lo, hi, <<ev.samples[k][1], ev.samples[k][2]>>, rin, rout) = 1})
TInit == e \in 1..Len(Trace) /\ judged = FALSE /\ cv = 0 /\ done = TRUE
Judge == /\ ~judged /\ judged' = TRUE /\ UNCHANGED <<e, cv, done>>
         /\ LET ev == Trace[e] b == Bad(ev) IN
            b # {} => LET k == CHOOSE x \in b : \A y \in b : x <= y IN
                      PrintT("@@" \o ToJson([l |-> e, n |-> Cardinality(b), k |-> k, s |-> ev.samples[k],
                                             uncovered |-> Cardinality({x \in b : ev.samples[x][3] = 0}), deep |-> Deep(ev),
                                             rin |-> RIn(ev.cv, ev.hw), rout |-> ROut(ev.cv, ev.hw), q |-> QOf(ev.cv)]))
TSpec == TInit /\ [][Judge]_tvars
=============================================================================
