-------------------------------- MODULE Dash --------------------------------
(* C05: dashing cuts a path by arc length according to the pattern.                                  *)
(*                                                                                                   *)
(* Everything is an integer: sub-path lengths, pattern entries and the offset are given in a common  *)
(* unit (the harness scales real paths so that this is so).  A sub-path of length L consists of the  *)
(* unit cells [k,k+1], k = 0..L-1.  THE DEFINITION of dashing (module section 1): the pattern d is   *)
(* repeated cyclically (an odd-length pattern is the pattern written twice), pattern position u      *)
(* belongs to a dash iff the entry containing (u mod period) has an odd (1-based) index, and the     *)
(* point at arc length s of every sub-path has pattern position s + offset ("offset into d").  The   *)
(* drawn set of a sub-path is the union of its "on" cells; the expected observation is the list of   *)
(* its maximal intervals; on a closed sub-path the interval ending at L and the one starting at 0    *)
(* are one interval (written <<a, L+b>>).  Zero-length dashes contain no cell and vanish, zero gaps  *)
(* separate nothing and merge, the empty pattern draws everything, an all-zero pattern nothing.      *)
(*                                                                                                   *)
(* Section 2 is the dash AUTOMATON (index i, remaining length rem, on = i odd; reset per sub-path)   *)
(* as a state machine; the model-level run proves that it produces exactly the definitional          *)
(* intervals (and the laws of section 3) for all small (path, pattern, offset).                      *)
(* Section 4 generates scenarios for the replay into canvas.Path.Dash; Trace_Dash validates traces.  *)
EXTENDS Lattice, TLC, Json, Randomization

CONSTANTS Fam,        \* path family: "mc" | "cat" | "rand" | "curve"
          Vals,       \* set of pattern entry values
          MaxPat,     \* maximal pattern length
          OffNeg, OffHi,   \* offsets range over -OffNeg..OffHi (a .cfg file cannot hold negative numbers)
          Num,        \* number of random paths (Fam = "rand") / random long patterns (Fam = "cat", 0 = none)
          Walk        \* TRUE: step the automaton (model level) ; FALSE: emit scenarios directly

VARIABLES path,   \* sequence of sub-paths [shape, pts, closed, L]
          d, off, \* pattern (sequence of naturals) and offset (integer)
          k,      \* automaton: current sub-path (1-based) ; Len(path)+1 when finished
          pos, i, rem,
          cur,    \* intervals of the current sub-path so far
          out,    \* finished sub-paths: sequence of interval sequences
          done
vars == <<path, d, off, k, pos, i, rem, cur, out, done>>

\* ---- 1. the definition -----------------------------------------------------------------------------
RECURSIVE Sum(_)
Sum(s) == IF s = <<>> THEN 0 ELSE Head(s) + Sum(Tail(s))
Doubled(dd) == IF Len(dd) % 2 = 1 THEN dd \o dd ELSE dd
Period(dd) == Sum(Doubled(dd))
\* the entry of D that contains phase r (0 <= r < Sum(D)): entries of length 0 contain nothing
RECURSIVE EntryAt(_, _, _)
EntryAt(D, r, j) == IF r < D[j] THEN j ELSE EntryAt(D, r - D[j], j + 1)
\* pattern position u (any integer) lies in a dash ; only used with Period(dd) > 0.  (TLA+ % is the
\* mathematical modulus: the result is in 0..P-1 also for negative u.)
OnAtD(D, P, u) == EntryAt(D, u % P, 1) % 2 = 1
OnAt(dd, u) == LET D == Doubled(dd) IN OnAtD(D, Sum(D), u)
CellOn(dd, o, c) == IF dd = <<>> THEN TRUE ELSE IF Period(dd) = 0 THEN FALSE ELSE OnAt(dd, c + o)
\* the same with the doubled pattern D, its period P and the case (m) computed once per sub-path
Kind(dd) == IF dd = <<>> THEN "all" ELSE IF Period(dd) = 0 THEN "none" ELSE "pat"
CellOnK(m, D, P, o, c) == m = "all" \/ (m = "pat" /\ OnAtD(D, P, c + o))

RECURSIVE RunsFrom(_, _, _, _, _, _, _)
RunsFrom(m, D, P, o, L, c, start) ==
    IF c = L THEN (IF start >= 0 THEN << <<start, L>> >> ELSE <<>>)
    ELSE IF CellOnK(m, D, P, o, c) THEN RunsFrom(m, D, P, o, L, c + 1, IF start >= 0 THEN start ELSE c)
    ELSE (IF start >= 0 THEN << <<start, c>> >> ELSE <<>>) \o RunsFrom(m, D, P, o, L, c + 1, -1)
Runs(dd, o, L) == LET D == Doubled(dd) IN RunsFrom(Kind(dd), D, Sum(D), o, L, 0, -1)
\* closed sub-path: the run ending at L and the run starting at 0 are one piece through the start point
Wrapped(r, L, closed) == IF closed /\ Len(r) >= 2 /\ r[1][1] = 0 /\ r[Len(r)][2] = L
                         THEN SubSeq(r, 2, Len(r) - 1) \o << <<r[Len(r)][1], L + r[1][2]>> >>
                         ELSE r
ExpectedSub(s, dd, o) == Wrapped(Runs(dd, o, s.L), s.L, s.closed)
Expected(p, dd, o) == [j \in 1..Len(p) |-> ExpectedSub(p[j], dd, o)]
\* what the pattern prescribes: the number of on cells
RECURSIVE OnCells(_, _, _)
OnCells(dd, o, L) == IF L = 0 THEN 0 ELSE (IF CellOn(dd, o, L - 1) THEN 1 ELSE 0) + OnCells(dd, o, L - 1)
RECURSIVE IvLen(_)
IvLen(iv) == IF iv = <<>> THEN 0 ELSE (Head(iv)[2] - Head(iv)[1]) + IvLen(Tail(iv))

\* ---- 2. the automaton --------------------------------------------------------------------------------
\* (index, remaining) of the pattern at pattern position o, by modular arithmetic
RECURSIVE Locate(_, _, _)
Locate(D, r, j) == IF r < D[j] THEN <<j, D[j] - r>> ELSE Locate(D, r - D[j], j + 1)
StartState(dd, o) == LET D == Doubled(dd) IN Locate(D, o % Sum(D), 1)
Trivial == d = <<>> \/ Period(d) = 0
\* append an interval, merging with the previous one when they touch (zero gap)
AddIv(s, a, b) == IF s # <<>> /\ s[Len(s)][2] = a THEN [s EXCEPT ![Len(s)] = <<s[Len(s)][1], b>>] ELSE Append(s, <<a, b>>)

StartSub == /\ Walk /\ ~done /\ k <= Len(path) /\ pos = -1
            /\ pos' = 0 /\ cur' = <<>>
            /\ IF Trivial THEN i' = 0 /\ rem' = 0
               ELSE LET st == StartState(d, off) IN i' = st[1] /\ rem' = st[2]
            /\ UNCHANGED <<path, d, off, k, out, done>>
\* the whole sub-path at once for the degenerate patterns
Degenerate == /\ Walk /\ ~done /\ k <= Len(path) /\ pos = 0 /\ Trivial /\ pos < path[k].L
              /\ pos' = path[k].L
              /\ cur' = IF d = <<>> THEN << <<0, path[k].L>> >> ELSE <<>>
              /\ UNCHANGED <<path, d, off, k, i, rem, out, done>>
Advance == /\ Walk /\ ~done /\ k <= Len(path) /\ pos >= 0 /\ ~Trivial /\ pos < path[k].L /\ rem > 0
           /\ LET step == MinI(rem, path[k].L - pos) IN
              /\ pos' = pos + step /\ rem' = rem - step
              /\ cur' = IF i % 2 = 1 THEN AddIv(cur, pos, pos + step) ELSE cur
           /\ UNCHANGED <<path, d, off, k, i, out, done>>
Switch == /\ Walk /\ ~done /\ k <= Len(path) /\ pos >= 0 /\ ~Trivial /\ pos < path[k].L /\ rem = 0
          /\ LET D == Doubled(d) j == (i % Len(D)) + 1 IN i' = j /\ rem' = D[j]
          /\ UNCHANGED <<path, d, off, k, pos, cur, out, done>>
EndSub == /\ Walk /\ ~done /\ k <= Len(path) /\ pos = path[k].L
          /\ out' = Append(out, Wrapped(cur, path[k].L, path[k].closed))
          /\ k' = k + 1 /\ pos' = -1 /\ cur' = <<>>
          /\ UNCHANGED <<path, d, off, i, rem, done>>

\* ---- 3. model-level properties ----------------------------------------------------------------------
Finished == k = Len(path) + 1
\* the automaton computes the definition
AutomatonIsDefinition == (Walk /\ Finished) => out = Expected(path, d, off)
WalkOK == (Walk /\ k <= Len(path) /\ pos >= 0) =>
             /\ pos <= path[k].L /\ rem >= 0
             /\ IvLen(cur) = OnCells(d, off, pos)                           \* drawn so far = prescription so far
             /\ \A m \in 1..Len(cur) : cur[m][1] < cur[m][2] /\ (m > 1 => cur[m-1][2] < cur[m][1])
\* laws of the definition (evaluated once per scenario: in its initial state)
SortedIv(iv, L) == \A m \in 1..Len(iv) : /\ 0 <= iv[m][1] /\ iv[m][1] < iv[m][2] /\ iv[m][1] < L
                                         /\ (m > 1 => iv[m-1][2] < iv[m][1])
                                         /\ (iv[m][2] > L => m = Len(iv) /\ iv[m][2] - L < iv[1][1])
Laws == (k = 1 /\ pos = -1 /\ ~done) => LET e == Expected(path, d, off) IN
        /\ \A j \in 1..Len(path) :
             /\ SortedIv(e[j], path[j].L)
             /\ (~path[j].closed => \A m \in 1..Len(e[j]) : e[j][m][2] <= path[j].L)
             /\ IvLen(e[j]) = OnCells(d, off, path[j].L)                    \* total drawn length = prescription
        /\ (Period(d) > 0 => /\ e = Expected(path, d, off + Period(d))      \* offsets act modulo the period
                             /\ e = Expected(path, d, off - 3 * Period(d)))
        /\ e = Expected(path, d \o d, off)                                  \* repeating the pattern changes nothing
        /\ (d = <<>> => \A j \in 1..Len(path) : e[j] = << <<0, path[j].L>> >>)
        /\ ((d # <<>> /\ Period(d) = 0) => \A j \in 1..Len(path) : e[j] = <<>>)
        /\ \A j1, j2 \in 1..Len(path) : (path[j1].L = path[j2].L /\ path[j1].closed = path[j2].closed) => e[j1] = e[j2]   \* reset per sub-path

\* ---- scenario features (exact; used for steering and for known-finding signatures) -------------------
\* q is a period of the on/off function of the pattern
IsPeriod(dd, q) == \A u \in 0..(Period(dd) - 1) : OnAt(dd, u + q) = OnAt(dd, u)
\* smallest period of the on/off function (model level only)
MinPeriod(dd) == IF Period(dd) = 0 THEN 0 ELSE CHOOSE q \in 1..Period(dd) : IsPeriod(dd, q) /\ \A q2 \in 1..(q-1) : ~IsPeriod(dd, q2)
\* number of leading "off" pattern cells (the pattern starts with a zero-length dash)
RECURSIVE LeadOff_(_, _)
LeadOff_(dd, u) == IF u >= Period(dd) \/ OnAt(dd, u) THEN u ELSE LeadOff_(dd, u + 1)
LeadOff(dd) == IF Period(dd) = 0 THEN 0 ELSE LeadOff_(dd, 0)
\* the offset reaches back more than one (minimal) period before the first dash of the pattern:
\*   o - LeadOff(dd) < -MinPeriod(dd), written without computing MinPeriod
OffsetBelowMinusPeriod(dd, o) == o < 0 /\ Period(dd) > 0 /\ \E q \in 1..(LeadOff(dd) - o - 1) : IsPeriod(dd, q)
HasZero3(dd) == Len(dd) >= 3 /\ \E j \in 1..Len(dd) : dd[j] = 0
\* the pattern begins or ends with a zero entry (and is long enough for that to matter)
EndZero(dd) == Len(dd) >= 3 /\ (dd[1] = 0 \/ dd[Len(dd)] = 0)
\* the sub-paths do not start at the beginning of the pattern
Phase(dd, o) == Period(dd) > 0 /\ o % Period(dd) # 0
\* a boundary between a dash and a gap coincides with the end of some sub-path
EndCoincides(p, dd, o) == Period(dd) > 0 /\ \E j \in 1..Len(p) : p[j].L > 0 /\ OnAt(dd, p[j].L - 1 + o) # OnAt(dd, p[j].L + o)
Features(p, dd, o) == [negper |-> OffsetBelowMinusPeriod(dd, o), zero3 |-> HasZero3(dd), endzero |-> EndZero(dd), phase |-> Phase(dd, o),
                       endco |-> EndCoincides(p, dd, o)]

\* ---- 4. scenario space ----------------------------------------------------------------------------------
Sub(shape, pts, closed, L) == [shape |-> shape, pts |-> pts, closed |-> closed, L |-> L]
SegLen(a, b) == ISqrtLo(Len2(a, b))
RECURSIVE PolyLen(_, _)
PolyLen(pts, j) == IF j >= Len(pts) THEN 0 ELSE SegLen(pts[j], pts[j+1]) + PolyLen(pts, j + 1)
PLen(pts, closed) == PolyLen(pts, 1) + (IF closed THEN SegLen(pts[Len(pts)], pts[1]) ELSE 0)
ExactLens(pts, closed) == /\ \A j \in 1..(Len(pts)-1) : LET l == SegLen(pts[j], pts[j+1]) IN l > 0 /\ l * l = Len2(pts[j], pts[j+1])
                          /\ closed => LET l == SegLen(pts[Len(pts)], pts[1]) IN l > 0 /\ l * l = Len2(pts[Len(pts)], pts[1])
Poly(pts, closed) == Sub("poly", pts, closed, PLen(pts, closed))
Shift(pts, dx, dy) == [j \in 1..Len(pts) |-> <<pts[j][1] + dx, pts[j][2] + dy>>]

\* catalogue: integer segment lengths (axis-aligned and 3-4-5 directions), open and closed, 1-3 sub-paths
Catalogue == {
   << Poly(<< <<0,0>>, <<4,0>>, <<4,6>> >>, FALSE) >>,                                   \* L = 10 (open, two segments)
   << Poly(<< <<0,0>>, <<4,0>>, <<4,3>> >>, TRUE) >>,                                    \* L = 12 closed triangle 4-3-5
   << Poly(<< <<0,0>>, <<3,4>>, <<3,10>>, <<11,4>> >>, FALSE) >>,                        \* L = 21 open 5+6+10
   << Poly(<< <<0,0>>, <<5,0>>, <<5,2>>, <<0,2>> >>, TRUE) >>,                           \* L = 14 closed rectangle
   << Poly(<< <<0,0>>, <<1,0>> >>, FALSE) >>,                                            \* L = 1  shorter than most dashes
   << Poly(<< <<0,0>>, <<3,4>>, <<6,0>> >>, TRUE) >>,                                    \* L = 16 closed 5-5-6
   << Poly(<< <<0,0>>, <<3,0>> >>, FALSE), Poly(<< <<10,0>>, <<10,4>>, <<13,0>> >>, TRUE) >>,           \* 3 ; 12
   << Poly(<< <<0,0>>, <<7,0>> >>, FALSE), Poly(<< <<10,0>>, <<12,0>>, <<12,2>>, <<10,2>> >>, TRUE),
      Poly(<< <<20,0>>, <<23,4>>, <<26,0>> >>, FALSE) >>,                                               \* 7 ; 8 ; 10
   << Poly(<< <<0,0>>, <<0,5>> >>, FALSE), Poly(<< <<5,0>>, <<5,5>> >>, FALSE) >> }                     \* 5 ; 5 (reset per sub-path)

\* random polylines: 1-3 moves with integer lengths, consecutive moves not collinear (the builder merges those)
Moves == {<<a, 0>> : a \in {-3,-2,-1,1,2,3}} \cup {<<0, a>> : a \in {-3,-2,-1,1,2,3}}
         \cup {<<3,4>>, <<4,3>>, <<-3,4>>, <<4,-3>>, <<-4,3>>, <<3,-4>>, <<-3,-4>>, <<-4,-3>>}
MoveSeqs == UNION {[1..n -> Moves] : n \in 1..3}
RECURSIVE Trace_(_, _, _)
Trace_(ms, j, p) == IF j > Len(ms) THEN <<>> ELSE LET q == <<p[1] + ms[j][1], p[2] + ms[j][2]>> IN <<q>> \o Trace_(ms, j + 1, q)
PtsOf(ms) == << <<0,0>> >> \o Trace_(ms, 1, <<0,0>>)
CrossV(u, v) == u[1] * v[2] - u[2] * v[1]
GoodOpen(ms) == \A j \in 1..(Len(ms)-1) : CrossV(ms[j], ms[j+1]) # 0
GoodClosed(ms) == /\ Len(ms) >= 2 /\ GoodOpen(ms)
                  /\ LET pts == PtsOf(ms) e == pts[Len(pts)] c == <<0 - e[1], 0 - e[2]>> IN
                     /\ ExactLens(pts, TRUE)
                     /\ CrossV(ms[Len(ms)], c) # 0 /\ CrossV(c, ms[1]) # 0
GoodSubs == {<<ms, FALSE>> : ms \in {x \in MoveSeqs : GoodOpen(x)}} \cup {<<ms, TRUE>> : ms \in {x \in MoveSeqs : GoodClosed(x)}}
MkSub(g, n) == Poly(Shift(PtsOf(g[1]), 30 * (n - 1), 7 * (n - 1)), g[2])
RandPaths == LET A == RandomSubset(Num, GoodSubs) B == RandomSubset(3, GoodSubs) C == RandomSubset(2, GoodSubs) IN
             {<<MkSub(a, 1)>> : a \in A} \cup {<<MkSub(a, 1), MkSub(b, 2)>> : a \in RandomSubset(Num \div 4 + 1, GoodSubs), b \in B}
             \cup {<<MkSub(a, 1), MkSub(b, 2), MkSub(c, 3)>> : a \in RandomSubset(Num \div 8 + 1, GoodSubs), b \in B, c \in C}

\* curves: the harness realises shape s with total length = s.L units (unit = true length / L)
CurveShapes == {<<"circle", TRUE>>, <<"bigarc", FALSE>>, <<"quarter", FALSE>>, <<"quad", FALSE>>, <<"cubic", FALSE>>,
                <<"cubic-s", FALSE>>, <<"ellipse", TRUE>>, <<"mixed", TRUE>>, <<"mixed-open", FALSE>>,
                \* cubics with two inflection points strictly inside (0,1): (0,0)(9,6)(1,6)(10,0) etc., see props/c05/geom.go
                <<"cubic-2i-a", FALSE>>, <<"cubic-2i-b", FALSE>>, <<"cubic-2i-c", FALSE>>,
                \* collinear quadratic with the control point beyond an end (runs out and back), followed by a line
                <<"quad-over", FALSE>>, <<"quad-under", FALSE>>}
CurvePaths == {<< Sub(c[1], <<>>, c[2], n) >> : c \in CurveShapes, n \in {7, 12, 24}}
              \cup {<< Sub("quad", <<>>, FALSE, 6), Sub("circle", <<>>, TRUE, 12) >>}

McPaths == {<< Sub("abs", <<>>, c, n) >> : c \in BOOLEAN, n \in 1..7}
           \cup {<< Sub("abs", <<>>, c, 4), Sub("abs", <<>>, c2, 3) >> : c, c2 \in BOOLEAN}

Pats == UNION {[1..n -> Vals] : n \in 0..MaxPat}
PathChoice == CASE Fam = "mc" -> McPaths [] Fam = "cat" -> Catalogue [] Fam = "rand" -> RandPaths [] Fam = "curve" -> CurvePaths
\* long patterns (length MaxPat+1 .. MaxPat+2) are sampled
PatChoice == IF Num > 0 /\ Fam = "cat" THEN Pats \cup RandomSubset(Num, [1..(MaxPat+1) -> Vals]) \cup RandomSubset(Num, [1..(MaxPat+2) -> Vals]) ELSE Pats

\* tolerance of the comparison, in 1/Q units: polylines exact; curves: see notes/C05.md (calibrated)
QOf == IF Fam = "curve" THEN 100 ELSE 1
\* curves: 0.1 unit; cubics with two inflection points: 1.25 % of the curve length if that is more (calibrated: the library's
\* inverse arc length is off by up to 0.88 % of the length on them, 0.1 % on other cubics; the statement allows 1 % of the
\* curve length, see notes/C05.md)
\* (also the collinear out-and-back quadratics: the speed has a zero inside the curve, same calibrated 0.7 %)
TwoInflShapes == {"cubic-2i-a", "cubic-2i-b", "cubic-2i-c", "quad-over", "quad-under"}
SubTol(s) == IF s.shape \in TwoInflShapes THEN MaxI(10, (5 * s.L + 3) \div 4) ELSE 10
RECURSIVE MaxTol(_, _)
MaxTol(p, j) == IF j = 0 THEN 0 ELSE MaxI(SubTol(p[j]), MaxTol(p, j - 1))
TolOf == IF Fam = "curve" THEN MaxTol(path, Len(path)) ELSE 0

Init == /\ path \in PathChoice /\ d \in PatChoice /\ off \in (0 - OffNeg)..OffHi
        /\ k = 1 /\ pos = -1 /\ i = 0 /\ rem = 0 /\ cur = <<>> /\ out = <<>> /\ done = FALSE

Scenario == [subs |-> path, d |-> d, off |-> off, exp |-> Expected(path, d, off), f |-> Features(path, d, off), q |-> QOf, tol |-> TolOf]
Emit == /\ ~done /\ (Walk => Finished) /\ done' = TRUE
        /\ (~Walk) => PrintT("@@" \o ToJson(Scenario))
        /\ UNCHANGED <<path, d, off, k, pos, i, rem, cur, out>>
Next == StartSub \/ Degenerate \/ Advance \/ Switch \/ EndSub \/ Emit
Spec == Init /\ [][Next]_vars

\* the whole call as one action (used by the trace specification)
DashC(p, dd, o) == /\ path' = p /\ d' = dd /\ off' = o /\ out' = Expected(p, dd, o)
                   /\ k' = Len(p) + 1 /\ pos' = -1 /\ i' = 0 /\ rem' = 0 /\ cur' = <<>> /\ done' = TRUE
=============================================================================
