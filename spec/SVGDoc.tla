------------------------------ MODULE SVGDoc ------------------------------
(* C19: imported SVG documents draw the geometry the SVG specification assigns.                        *)
(*                                                                                                      *)
(* A document is an element tree  svg(width,height,unit,viewBox) > style rules > g (nesting <= 2) >     *)
(* shapes, written as a preorder list of elements with depths.  The module holds                        *)
(*   1. the tables of the scenario space and the document builder (a total function of a vector of      *)
(*      "genes" 0..59, so that TLC can draw documents at random with RandomSubset),                      *)
(*   2. the SVG/CSS semantics, written from the specifications (SVG 1.1/2: coordinate systems 7.x,       *)
(*      styling 6.x, basic shapes 9.x, paths 8.3 and F.6, painting 11.x; CSS 2.1 cascade 6.4):           *)
(*      effective style (presentation attribute < author rule by specificity then order < style         *)
(*      attribute; inheritance; initial values), transform lists composed outer o inner, the viewBox     *)
(*      -> viewport map (preserveAspectRatio = xMidYMid meet), the canvas size in mm (96 px per inch),   *)
(*      and for every painted element a three-valued classification (0 out / 1 in / 2 free) of sample    *)
(*      points of its own user space for the fill and for the stroke region,                            *)
(*   3. the expected list of paint events of a document (Events) and its features (Hazards),            *)
(*   4. the round-trip scenarios (Mode = "rt"): lattice drawings whose expected paint events follow      *)
(*      from canvas' documented meaning of view matrix, fill, stroke and fill rule,                      *)
(*   5. model-level laws (MC).                                                                           *)
(* All geometry is exact integer arithmetic on user-space coordinates scaled by S.                       *)
EXTENDS Lattice, Mat, TLC, Json, Randomization
Sq0(x) == x * x

CONSTANTS Mode,     \* "gen" documents | "rt" round-trip drawings | "mc" model-level laws on documents
          Num       \* number of scenarios

S == 8              \* scale of sample coordinates: one user unit = 8
Tol == 1            \* tolerance band (1/8 user unit) on the accepting side of every curved or stroked boundary
Step == 6           \* sample grid step (odd offsets: a sample never lies on a lattice or half-lattice line)

VARIABLES g, done
vars == <<g, done>>

\* ------------------------------------------------------------------------------------------------------
\* 1. scenario space
\* ------------------------------------------------------------------------------------------------------
NGenes == 280
F10 == [1..10 -> 0..59]
RECURSIVE RandGenes(_)
RandGenes(k) == IF k = 0 THEN <<>> ELSE (CHOOSE x \in RandomSubset(1, F10) : TRUE) \o RandGenes(k - 1)

At(o, i) == g[o + i]
Pk(o, i, t) == t[(g[o + i] % Len(t)) + 1]
Yes(o, i, m, r) == g[o + i] % m = r

Cols == <<"red", "blue", "lime", "#ff0", "#00ffff", "rgb(255,0,255)", "gray", "orange", "#000080", "black", "none", "none">>
RGBA(n) == CASE n = "red" -> <<255,0,0,255>> [] n = "blue" -> <<0,0,255,255>> [] n = "lime" -> <<0,255,0,255>>
             [] n = "#ff0" -> <<255,255,0,255>> [] n = "#00ffff" -> <<0,255,255,255>> [] n = "rgb(255,0,255)" -> <<255,0,255,255>>
             [] n = "gray" -> <<128,128,128,255>> [] n = "orange" -> <<255,165,0,255>> [] n = "#000080" -> <<0,0,128,255>>
             [] n = "black" -> <<0,0,0,255>> [] n = "none" -> <<0,0,0,0>>
             [] n = "redh" -> <<128,0,0,128>> [] OTHER -> <<1,2,3,4>>
Widths == <<"1", "2", "3", "2">>
Joins == <<"miter", "bevel", "round", "miter">>
Limits == <<"2", "4", "10", "10">>
Caps == <<"butt", "round", "square">>
Num10(v) == CASE v = "1" -> 1 [] v = "2" -> 2 [] v = "3" -> 3 [] v = "4" -> 4 [] v = "10" -> 10 [] OTHER -> 0
FillRules == <<"evenodd", "nonzero">>
Props == <<"fill", "stroke", "stroke-width", "stroke-linejoin", "stroke-miterlimit", "stroke-linecap", "fill-rule">>
Vals(p) == CASE p = "fill" -> Cols [] p = "stroke" -> Cols [] p = "stroke-width" -> Widths [] p = "stroke-linejoin" -> Joins
             [] p = "stroke-miterlimit" -> Limits [] p = "stroke-linecap" -> Caps [] p = "fill-rule" -> FillRules
Initial(p) == CASE p = "fill" -> "black" [] p = "stroke" -> "none" [] p = "stroke-width" -> "1" [] p = "stroke-linejoin" -> "miter"
                [] p = "stroke-miterlimit" -> "4" [] p = "stroke-linecap" -> "butt" [] p = "fill-rule" -> "nonzero"

Decl(p, v) == [p |-> p, v |-> v]
Op(f, a) == [f |-> f, a |-> a]
\* an attribute in serialisation order: presentation attribute (n = property, v), style (d = declarations), class / id (v), transform (t = ops)
Attr(n, v, d, t) == [n |-> n, v |-> v, d |-> d, t |-> t]
If1(c, x) == IF c THEN <<x>> ELSE <<>>

Rev(s) == [i \in 1..Len(s) |-> s[Len(s) + 1 - i]]
Rot(s, k) == IF Len(s) = 0 THEN s ELSE [i \in 1..Len(s) |-> s[((i - 1 + k) % Len(s)) + 1]]
Perm(s, k) == CASE k % 4 = 0 -> s [] k % 4 = 1 -> Rev(s) [] k % 4 = 2 -> Rot(s, k \div 4) [] k % 4 = 3 -> Rev(Rot(s, k \div 4))

\* ---- transform lists -------------------------------------------------------------------------------------
SmallMats == << <<1,0,0,1,2,1>>, <<0,1,-1,0,6,0>>, <<1,0,1,1,0,0>>, <<2,0,0,1,0,0>>, <<-1,0,0,1,6,0>>, <<1,1,0,1,0,0>>, <<0,1,1,0,0,0>> >>   \* SVG order a b c d e f
TOp(o, i) == LET k == Pk(o, i, <<"translate", "translate", "translate1", "scale", "scale1", "rotate", "rotate", "rotate3", "matrix">>)
                 a == At(o, i + 1)  b == At(o, i + 2) c == At(o, i + 3) IN
    CASE k = "translate"  -> Op("translate", <<(a % 7) - 2, (b % 7) - 2>>)
      [] k = "translate1" -> Op("translate", <<(a % 7) - 2>>)
      [] k = "scale"      -> Op("scale", <<Pk(o, i + 1, <<1, 2, -1, 2, 3>>), Pk(o, i + 2, <<1, 2, -1, 1>>)>>)
      [] k = "scale1"     -> Op("scale", <<Pk(o, i + 1, <<2, -1, 3>>)>>)
      [] k = "rotate"     -> Op("rotate", <<90 * ((a % 7) - 3)>>)
      [] k = "rotate3"    -> Op("rotate", <<90 * ((a % 7) - 3), b % 6, c % 6>>)
      [] k = "matrix"     -> Op("matrix", Pk(o, i + 1, SmallMats))
TList(o, i) == LET n == Pk(o, i, <<0, 0, 0, 1, 1, 2>>) IN
    IF n = 0 THEN <<>> ELSE IF n = 1 THEN <<TOp(o, i + 1)>> ELSE <<TOp(o, i + 1), TOp(o, i + 5)>>      \* uses genes i .. i+8

\* ---- the style-carrying attributes of an element (genes o+1 .. o+30) ----------------------------------------
ClassOf(o) == Pk(o, 1, << <<>>, <<>>, <<"a">>, <<"b">>, <<"a", "b">>, <<"c">> >>)
IdOf(o, slot) == IF Yes(o, 2, 3, 0) THEN Pk(o, 2, <<"i", "j">>) \o ToString(slot) ELSE ""
JoinStr(cl) == IF Len(cl) = 0 THEN "" ELSE IF Len(cl) = 1 THEN cl[1] ELSE cl[1] \o " " \o cl[2]
StyleAttrs(o, slot, shape) ==
    LET fa == Yes(o, 3, 3, 0) \/ Yes(o, 3, 3, 1)
        fs == Yes(o, 5, 4, 0)
        sa == IF shape THEN Yes(o, 7, 2, 0) ELSE Yes(o, 7, 3, 0)
        ss == Yes(o, 9, 5, 0)
        \* fill-rule (an inherited property): 0 attribute evenodd, 1 attribute nonzero (resets an inherited evenodd), 2 in the style attribute
        fr == At(o, 4) \div 12
        sty == If1(fs, Decl("fill", Pk(o, 6, Cols))) \o If1(ss, Decl("stroke", Pk(o, 10, Cols)))
               \o If1(Yes(o, 13, 6, 0), Decl("stroke-width", Pk(o, 14, Widths)))
               \o If1(Yes(o, 20, 8, 0), Decl("stroke-linejoin", Pk(o, 21, Joins)))
               \o If1(Yes(o, 20, 8, 1), Decl("stroke-miterlimit", Pk(o, 21, Limits)))
               \o If1(fr = 2, Decl("fill-rule", Pk(o, 6, FillRules)))
        tl == TList(o, 22)
        base == If1(fa, Attr("fill", Pk(o, 4, Cols), <<>>, <<>>))
                \o If1(sa, Attr("stroke", Pk(o, 8, Cols), <<>>, <<>>))
                \o If1(Yes(o, 11, 3, 0), Attr("stroke-width", Pk(o, 12, Widths), <<>>, <<>>))
                \o If1(Yes(o, 15, 3, 0), Attr("stroke-linejoin", Pk(o, 16, Joins), <<>>, <<>>))
                \o If1(Yes(o, 17, 3, 0), Attr("stroke-miterlimit", Pk(o, 18, Limits), <<>>, <<>>))
                \o If1(Yes(o, 19, 5, 0), Attr("stroke-linecap", Pk(o, 19, Caps), <<>>, <<>>))
                \o If1(fr <= 1, Attr("fill-rule", FillRules[fr + 1], <<>>, <<>>))
                \o If1(Len(sty) > 0, Attr("style", "", Perm(sty, At(o, 9)), <<>>))
                \o If1(Len(ClassOf(o)) > 0, Attr("class", JoinStr(ClassOf(o)), <<>>, <<>>))
                \o If1(IdOf(o, slot) # "", Attr("id", IdOf(o, slot), <<>>, <<>>))
                \o If1(Len(tl) > 0, Attr("transform", "", <<>>, tl))
    IN Perm(base, At(o, 31))

\* ---- shape geometry (genes o+32 ..) --------------------------------------------------------------------------
Kinds == <<"rect", "rect", "circle", "ellipse", "line", "polyline", "polygon", "polygon", "path", "path", "path">>
Distinct2(p, q) == IF p = q THEN <<q[1] + 1, q[2] + 2>> ELSE q
\* a lattice vertex list without equal neighbours (also last # first)
RECURSIVE FixPts(_, _)
FixPts(ps, i) == IF i > Len(ps) THEN ps
                 ELSE LET prev == IF i = 1 THEN ps[Len(ps)] ELSE ps[i - 1] IN
                      IF Len(ps) > 1 /\ ps[i] = prev THEN FixPts([ps EXCEPT ![i] = <<ps[i][1] + 1, ps[i][2] + (i % 2) + 1>>], i + 1) ELSE FixPts(ps, i + 1)
GenPts(o, i, n) == LET raw == [k \in 1..n |-> <<At(o, i + 2 * k - 1) % 7, At(o, i + 2 * k) % 7>>] IN FixPts(FixPts(raw, 1), 1)

Cmd(c, a) == [c |-> c, a |-> a]
\* one path segment from four genes at o+i; r = a small radius for arcs
PSeg(o, i) == LET k == Pk(o, i, <<"L", "l", "H", "h", "V", "v", "L", "l", "Q", "q", "C", "c", "A", "a", "a", "T", "S", "t", "s", "l", "tt", "TT", "ss", "tt">>)
                  ax == At(o, i + 1) % 7  ay == At(o, i + 2) % 7  rx == (At(o, i + 1) % 5) - 2  ry == (At(o, i + 2) % 5) - 2
                  bx == At(o, i + 3) % 7  by == (At(o, i + 3) \div 7) % 7
                  r == (At(o, i + 3) % 3) + 1  sx == IF At(o, i + 1) % 2 = 0 THEN 1 ELSE -1  sy == IF At(o, i + 2) % 2 = 0 THEN 1 ELSE -1
                  fa == (At(o, i + 3) \div 3) % 2  fs == (At(o, i + 3) \div 6) % 2
                  nz(v) == IF v = 0 THEN 1 ELSE v IN
    CASE k = "L" -> <<Cmd("L", <<ax, ay>>)>>  [] k = "l" -> <<Cmd("l", <<nz(rx), ry>>)>>
      [] k = "H" -> <<Cmd("H", <<ax>>)>>      [] k = "h" -> <<Cmd("h", <<nz(rx)>>)>>
      [] k = "V" -> <<Cmd("V", <<ay>>)>>      [] k = "v" -> <<Cmd("v", <<nz(ry)>>)>>
      [] k = "Q" -> <<Cmd("Q", <<bx, by, ax, ay>>)>>   [] k = "q" -> <<Cmd("q", <<(bx % 5) - 2, (by % 5) - 2, nz(rx), ry>>)>>
      [] k = "C" -> <<Cmd("C", <<bx, by, by, bx, ax, ay>>)>>   [] k = "c" -> <<Cmd("c", <<(bx % 5) - 2, (by % 5) - 2, (by % 3) - 1, (bx % 3), nz(rx), ry>>)>>
      [] k = "A" -> <<Cmd("a", <<r, r, 0, fa, fs, sx * r, sy * r>>)>>   \* (absolute arcs are produced by the serialiser option; the model keeps the relative form)
      [] k = "a" -> <<Cmd("a", <<r, r, 0, fa, fs, sx * r, sy * r>>)>>
      [] k = "T" -> <<Cmd("q", <<(bx % 5) - 2, (by % 5) - 2, nz(rx), ry>>), Cmd("T", <<ax, ay>>)>>
      [] k = "t" -> <<Cmd("q", <<(bx % 5) - 2, (by % 5) - 2, nz(rx), ry>>), Cmd("t", <<nz(ry), rx>>)>>
      [] k = "S" -> <<Cmd("c", <<(bx % 5) - 2, (by % 5) - 2, (by % 3) - 1, (bx % 3), nz(rx), ry>>), Cmd("S", <<bx, ax, ay, by>>)>>
      \* chains of shorthand commands: every T / S reflects the control point of the command before it, also of another T / S
      [] k = "tt" -> <<Cmd("q", <<(bx % 3) - 1, nz((by % 5) - 2), nz(rx), ry>>), Cmd("t", <<nz(rx), ry>>), Cmd("t", <<nz(rx), 0 - ry>>)>> \o If1(bx > 3, Cmd("t", <<nz(ry), rx>>))
      [] k = "TT" -> <<Cmd("Q", <<bx, by, ax, ay>>), Cmd("T", <<by, ax>>), Cmd("T", <<ay, bx>>)>>
      [] k = "ss" -> <<Cmd("c", <<(bx % 5) - 2, (by % 5) - 2, (by % 3) - 1, (bx % 3), nz(rx), ry>>), Cmd("s", <<(by % 5) - 2, (bx % 5) - 2, nz(ry), rx>>), Cmd("s", <<(bx % 5) - 2, (by % 3) - 1, nz(rx), ry>>)>>
      [] k = "s" -> <<Cmd("c", <<(bx % 5) - 2, (by % 5) - 2, (by % 3) - 1, (bx % 3), nz(rx), ry>>), Cmd("s", <<(by % 5) - 2, (bx % 5) - 2, nz(ry), rx>>)>>
GenPath(o, i) == LET n == Pk(o, i, <<1, 2, 2, 3, 3>>)
                     segs == PSeg(o, i + 3) \o (IF n >= 2 THEN PSeg(o, i + 7) ELSE <<>>) \o (IF n >= 3 THEN PSeg(o, i + 11) ELSE <<>>)
                     z == If1(Yes(o, i + 1, 2, 0), Cmd("Z", <<>>))
                     sx == At(o, i + 2) % 5  sy == At(o, i + 1) % 5
                     \* a second sub-path: absolute / relative moveto (relative to the current point: the start of the first sub-path after
                     \* Z, its end otherwise) followed by relative or absolute linetos - the forms whose command letters may be left out
                     second == CASE At(o, i + 2) % 6 = 0 -> <<Cmd("M", <<sx, sy>>), Cmd("l", <<2, 0>>), Cmd("l", <<0, 2>>), Cmd("z", <<>>)>>
                                 [] At(o, i + 2) % 6 = 1 -> <<Cmd("m", <<1, 1>>), Cmd("h", <<2>>), Cmd("v", << 0 - 2 >>)>>
                                 [] At(o, i + 2) % 6 = 2 -> <<Cmd("m", <<sx - 2, sy - 2>>), Cmd("l", <<2, 0>>), Cmd("l", <<0, 2>>), Cmd("z", <<>>)>>
                                 [] At(o, i + 2) % 6 = 3 -> <<Cmd("M", <<sx, sy>>), Cmd("L", <<sx + 2, sy>>), Cmd("L", <<sx + 2, sy + 2>>), Cmd("z", <<>>)>>
                                 [] OTHER -> <<>>
                     \* (a relative moveto at the start of the path data counts from the origin: SVG 8.3.2)
                     first == Cmd(IF At(o, i) % 2 = 0 THEN "M" ELSE "m", <<1 + (At(o, i + 1) % 5), 1 + (At(o, i + 2) % 5)>>)
                     \* one path in ten: two nested squares wound in the same direction (winding 2 inside: nonzero fills it, evenodd does not)
                     nest == <<first, Cmd("h", <<4>>), Cmd("v", <<4>>), Cmd("h", << 0 - 4 >>), Cmd("z", <<>>), Cmd("m", <<1, 1>>), Cmd("h", <<2>>), Cmd("v", <<2>>), Cmd("h", << 0 - 2 >>), Cmd("z", <<>>)>>
                 IN IF (At(o, i) \div 2) % 10 = 0 THEN nest ELSE <<first>> \o segs \o z \o second

Units == <<"mm", "mm", "px", "", "", "cm", "in", "pt", "pc", "absent">>
\* reference size for percentages (SVG 7.10: the viewBox size in user units, without viewBox the viewport in px); <<0, 0>>: not an integer
RefWH == LET o == 0 unit == Pk(o, 1, Units) hasvb == unit = "absent" \/ ~Yes(o, 4, 6, 0)
             vbw == 8 + (At(o, 2) % 6)  vbh == 8 + (At(o, 3) % 6)  m == Pk(o, 12, <<1, 1, 2, 3>>) IN
         IF hasvb THEN <<vbw, vbh>>    \* with a viewBox, percentages refer to its size in user units (SVG 8.9; fixed in 6f37fc7: they were taken from the px viewport and scaled again)
         ELSE IF unit \in {"px", ""} THEN <<vbw * m, IF Yes(o, 13, 10, 0) THEN vbh * m + vbw ELSE vbh * m>> ELSE <<0, 0>>
ISqrt(q) == CHOOSE k \in 0..400 : k * k <= q /\ (k + 1) * (k + 1) > q
\* bounds (scaled by S) of pct% of the normalised diagonal sqrt((W^2 + H^2) / 2)  (SVG 7.10: percentages that are neither horizontal nor vertical)
PctLo(pct) == ISqrt((S * S * pct * pct * (Sq0(RefWH[1]) + Sq0(RefWH[2]))) \div 20000)
PctHi(pct) == LET n == S * S * pct * pct * (Sq0(RefWH[1]) + Sq0(RefWH[2])) lo == PctLo(pct) IN IF n % 20000 = 0 /\ lo * lo = n \div 20000 THEN lo ELSE lo + 1
Elem(kind, depth, geo, pts, segs, attrs, cls, id) ==
    [kind |-> kind, depth |-> depth, geo |-> geo, pts |-> pts, segs |-> segs, attrs |-> attrs, cls |-> cls, id |-> id]
Shape(o, slot, depth) ==
    LET kind == Pk(o, 32, Kinds)
        a == At(o, 33)  b == At(o, 34)  c == At(o, 35)  d == At(o, 36)  e == At(o, 37)
        w == 1 + (c % 6)  h == 1 + (d % 6)
        rr == Pk(o, 37, <<0, 0, 0, 1, 1, 2, 3>>)
        r == IF 2 * rr <= w /\ 2 * rr <= h THEN rr ELSE 0
        geo == CASE kind = "rect"    -> <<a % 6, b % 6, w, h, r, IF r = 0 THEN 0 ELSE Pk(o, 38, <<0, 1, 2>>)>>    \* x y w h r mode (0: rx only, 1: ry only, 2: both)
                 [] kind = "circle"  -> <<1 + (a % 7), 1 + (b % 7), 1 + (c % 4), IF RefWH[1] = 0 THEN 0 ELSE IF RefWH[1] + RefWH[2] > 26 THEN Pk(o, 38, <<0, 0, 3, 5, 8, 10>>) ELSE Pk(o, 38, <<0, 0, 10, 20, 25, 30>>)>>   \* cx cy r pct (pct > 0: r = "pct%")
                 [] kind = "ellipse" -> <<1 + (a % 7), 1 + (b % 7), 1 + (c % 4), 1 + (d % 4)>>
                 [] kind = "line"    -> <<a % 7, b % 7>> \o Distinct2(<<a % 7, b % 7>>, <<c % 7, d % 7>>)
                 [] OTHER -> <<>>
        pts == IF kind \in {"polyline", "polygon"} THEN GenPts(o, 33, 3 + ((At(o, 32) \div 11) % 3)) ELSE <<>>
        segs == IF kind = "path" THEN GenPath(o, 33) ELSE <<>>
    IN Elem(kind, depth, geo, pts, segs, StyleAttrs(o, slot, TRUE), ClassOf(o), IdOf(o, slot))
Group(o, slot, depth) == Elem("g", depth, <<>>, <<>>, <<>>, StyleAttrs(o, slot, FALSE), ClassOf(o), IdOf(o, slot))

\* ---- gene layout: document 0.., rules 20.., groups 35.. (30 each), shapes 95.. (50 each) ----------------------
DOCo == 0
RULo == 20
GRPo(k) == IF k <= 2 THEN 35 + 30 * (k - 1) ELSE 245
SHPo(k) == 95 + 50 * (k - 1)
\* structures: preorder lists of <<"g"|"s", depth>>
Structs == << << <<"s",1>>, <<"s",1>>, <<"s",1>> >>,
              << <<"g",1>>, <<"s",2>>, <<"s",2>>, <<"s",1>> >>,
              << <<"g",1>>, <<"g",2>>, <<"s",3>>, <<"s",2>>, <<"s",1>> >>,
              << <<"s",1>>, <<"g",1>>, <<"s",2>>, <<"g",2>>, <<"s",3>> >>,
              << <<"g",1>>, <<"s",2>>, <<"g",1>>, <<"s",2>>, <<"s",1>> >>,
              << <<"g",1>>, <<"g",2>>, <<"s",3>>, <<"s",3>> >>,
              << <<"s",1>> >>,
              << <<"g",1>>, <<"s",2>> >>,
              << <<"g",1>>, <<"g",2>>, <<"s",3>> >>,
              << <<"s",1>>, <<"s",1>> >>,
              << <<"g",1>>, <<"g",2>>, <<"g",3>>, <<"s",4>> >>,
              << <<"g",1>>, <<"g",2>>, <<"g",3>>, <<"s",4>>, <<"s",2>> >>,
              << <<"s",1>>, <<"g",1>>, <<"g",2>>, <<"g",3>>, <<"s",4>>, <<"s",3>> >> >>
RECURSIVE CountKind(_, _, _)
CountKind(st, i, k) == IF i = 0 THEN 0 ELSE (IF st[i][1] = k THEN 1 ELSE 0) + CountKind(st, i - 1, k)

RootElem == LET o == DOCo
                at == If1(Yes(o, 8, 6, 0), Attr("fill", Pk(o, 9, Cols), <<>>, <<>>)) \o If1(Yes(o, 10, 8, 0), Attr("stroke", Pk(o, 11, Cols), <<>>, <<>>))
                      \o If1(At(o, 9) \div 12 = 0, Attr("fill-rule", "evenodd", <<>>, <<>>))
            IN Elem("svg", 0, <<>>, <<>>, <<>>, at, <<>>, "")
Elems == LET st == Pk(DOCo, 7, Structs) IN
         <<RootElem>> \o [i \in 1..Len(st) |-> IF st[i][1] = "g" THEN Group(GRPo(CountKind(st, i, "g")), i, st[i][2])
                                                ELSE Shape(SHPo(CountKind(st, i, "s")), i, st[i][2])]

\* CSS rules: each rule aims at one element of the document (its type, first class or id), so that most rules match something
\* A rule has a selector list of one or two members: the first is (typ, cls, id), the optional second is alt[1].
Sel(typ, cls, id) == [typ |-> typ, cls |-> cls, id |-> id]
Rule(typ, cls, id, d) == [typ |-> typ, cls |-> cls, id |-> id, pre |-> <<>>, alt |-> <<>>, d |-> d]
Comp(typ, cls, id, comb) == [typ |-> typ, cls |-> cls, id |-> id, comb |-> comb]
\* rule k > 1 follows rule k-1 (same target element, same first property) with probability 1/2: competing rules for one property
RuleTarget(k, es) == LET o == RULo + 5 * (k - 1) IN
                     IF k > 1 /\ (At(o, 1) \div 2) % 2 = 0 THEN RULo + 5 * (k - 2) ELSE o
GenRule(k, es) == LET o == RULo + 5 * (k - 1)
                      ot == RuleTarget(k, es)
                      t == es[2 + (At(ot, 2) % (Len(es) - 1))]
                      sk == Pk(o, 3, <<"t", "c", "i", "tc", "t", "c", "i", "star">>)
                      cls == IF Len(t.cls) > 0 THEN t.cls[Len(t.cls)] ELSE "a"
                      id == IF t.id # "" THEN t.id ELSE "i9"
                      p1 == Pk(ot, 4, <<"fill", "fill", "stroke", "stroke", "stroke-width", "stroke-linejoin", "stroke-miterlimit", "fill-rule">>)
                      d1 == Decl(p1, Pk(o, 5, Vals(p1)))
                      d2 == If1(Yes(o, 5, 3, 0) /\ p1 # "stroke", Decl("stroke", Pk(o, 4, Cols)))
                      base == CASE sk = "t" -> Rule(t.kind, "", "", <<d1>> \o d2) [] sk = "c" -> Rule("", cls, "", <<d1>> \o d2)
                                [] sk = "i" -> Rule("", "", id, <<d1>> \o d2) [] sk = "tc" -> Rule(t.kind, cls, "", <<d1>> \o d2)
                                [] sk = "star" -> Rule("*", "", "", <<d1>>)
                      \* second member of the selector list (1 rule in 2): another way of addressing the same element, or another element's type
                      cls1 == IF Len(t.cls) > 0 THEN t.cls[1] ELSE "b"
                      other == es[2 + ((At(o, 2) + 1) % (Len(es) - 1))]
                      alt == CASE sk = "t" -> Pk(o, 5, <<Sel("", cls1, ""), Sel("", cls, ""), Sel(other.kind, "", "")>>)
                               [] sk = "c" -> Pk(o, 5, <<Sel(t.kind, "", ""), Sel("", cls1, ""), Sel(other.kind, "", "")>>)
                               [] sk = "i" -> Pk(o, 5, <<Sel(t.kind, "", ""), Sel("", cls, "")>>)
                               [] sk = "tc" -> Pk(o, 5, <<Sel("", cls1, ""), Sel(t.kind, "", "")>>)
                               [] sk = "star" -> Sel("", cls, "")
                      \* compounds left of the subject (3 rules in 8): descendant and child combinators, also two of them, so that matching
                      \* has to consider every ancestor ("svg > g rect" under g > g: the nearest g is not the one whose parent is svg)
                      gs == {x \in 1..Len(es) : es[x].kind = "g"}
                      top == IF gs = {} THEN Comp("svg", "", "", ">")
                             ELSE LET g1 == es[SetMin(gs)] IN
                                  IF g1.id # "" THEN Comp("", "", g1.id, ">") ELSE IF Len(g1.cls) > 0 THEN Comp("", g1.cls[1], "", ">") ELSE Comp("svg", "", "", ">")
                      pre == CASE (At(o, 3) \div 8) = 0 -> <<Comp("g", "", "", " ")>>
                               [] (At(o, 3) \div 8) = 1 -> <<Comp("g", "", "", ">")>>
                               [] (At(o, 3) \div 8) = 2 -> <<Comp("svg", "", "", ">"), Comp("g", "", "", " ")>>
                               [] (At(o, 3) \div 8) = 3 -> <<top, Comp("g", "", "", " ")>>
                               [] (At(o, 3) \div 8) = 4 -> <<Comp("g", "", "", " "), Comp("g", "", "", ">")>>
                               [] OTHER -> <<>>
                      withpre == IF sk = "star" THEN base ELSE [base EXCEPT !.pre = pre]
                  IN IF At(o, 1) % 2 = 0 THEN [withpre EXCEPT !.alt = <<alt>>] ELSE withpre
GenRules(es) == LET n == Pk(RULo, 1, <<0, 1, 2, 2, 3, 3>>) IN [k \in 1..n |-> GenRule(k, es)]

Doc == LET o == DOCo
           es == Elems
           unit == Pk(o, 1, Units)
           vbw == 8 + (At(o, 2) % 6)  vbh == 8 + (At(o, 3) % 6)
           hasvb == unit = "absent" \/ ~Yes(o, 4, 6, 0)
           minx == Pk(o, 5, <<0, 0, 0, 0, 0, 2, -3>>)  miny == Pk(o, 6, <<0, 0, 0, 0, 0, 0, 1, -2>>)
           m == Pk(o, 12, <<1, 1, 2, 3>>)
           skew == Yes(o, 13, 10, 0)        \* width/height ratio differs from the viewBox ratio
           \* one of width / height may be a percentage or absent while the other is explicit ("x" explicit, "a" absent, else the text)
           mixed == IF unit = "absent" \/ ~hasvb THEN 7 ELSE At(o, 18) % 20
           wmode == CASE mixed = 0 -> "100%" [] mixed = 1 -> "50%" [] mixed = 4 -> "a" [] OTHER -> "x"
           hmode == CASE mixed = 2 -> "100%" [] mixed = 3 -> "50%" [] mixed = 5 -> "a" [] OTHER -> "x"
       IN [unit |-> unit, wmode |-> wmode, hmode |-> hmode, w |-> vbw * m, h |-> IF skew THEN vbh * m + vbw ELSE vbh * m, hasvb |-> hasvb,
           vb |-> <<minx, miny, vbw, vbh>>, rules |-> GenRules(es), es |-> es, ser |-> <<At(o, 14), At(o, 15), At(o, 16), At(o, 17)>>]

\* ------------------------------------------------------------------------------------------------------
\* 2. semantics
\* ------------------------------------------------------------------------------------------------------
\* ---- 2a. effective style (CSS 2.1 section 6.4 with SVG presentation attributes at specificity 0 before the author sheet) ----
ParentOf(es, i) == IF es[i].depth = 0 THEN 0 ELSE SetMax({j \in 1..(i - 1) : es[j].depth = es[i].depth - 1})
\* last value declared for p in a declaration list ("" if none)
RECURSIVE LastDecl(_, _, _)
LastDecl(d, p, i) == IF i = 0 THEN "" ELSE IF d[i].p = p THEN d[i].v ELSE LastDecl(d, p, i - 1)
AttrVal(e, p) == LET ix == {i \in 1..Len(e.attrs) : e.attrs[i].n = p} IN IF ix = {} THEN "" ELSE e.attrs[SetMax(ix)].v
StyleVal(e, p) == LET ix == {i \in 1..Len(e.attrs) : e.attrs[i].n = "style"} IN
                  IF ix = {} THEN "" ELSE LET d == e.attrs[SetMax(ix)].d IN LastDecl(d, p, Len(d))
InSeq(x, s) == \E i \in 1..Len(s) : s[i] = x
MatchesSel(r, e) == /\ (r.typ = "" \/ r.typ = "*" \/ r.typ = e.kind)
                    /\ (r.cls = "" \/ InSeq(r.cls, e.cls))
                    /\ (r.id = "" \/ r.id = e.id)
SpecSel(r) == (IF r.id # "" THEN 100 ELSE 0) + (IF r.cls # "" THEN 10 ELSE 0) + (IF r.typ \notin {"", "*"} THEN 1 ELSE 0)
\* a rule applies if a member of its selector list matches; its specificity for the element is that of the most specific
\* matching member (CSS 2.1 6.4.3: a selector list is shorthand for one rule per member)
Members(r) == <<Sel(r.typ, r.cls, r.id)>> \o r.alt
RECURSIVE Chain(_, _)
Chain(es, i) == IF i = 0 THEN {} ELSE {i} \cup Chain(es, ParentOf(es, i))
\* The first member may be a complex selector: r.pre[1] comb r.pre[2] comb ... subject, comb = ">" (child) or " " (descendant).
\* CSS 2.1 5.5 / 5.6, declaratively: the compounds left of the subject can be assigned to ancestors such that every child
\* combinator relates an element to its parent and every descendant combinator to some ancestor.
RECURSIVE PreOK(_, _, _, _)
PreOK(pre, k, es, i) == IF k = 0 THEN TRUE
                        ELSE IF pre[k].comb = ">" THEN ParentOf(es, i) # 0 /\ MatchesSel(pre[k], es[ParentOf(es, i)]) /\ PreOK(pre, k - 1, es, ParentOf(es, i))
                        ELSE \E a \in Chain(es, i) \ {i} : MatchesSel(pre[k], es[a]) /\ PreOK(pre, k - 1, es, a)
MemberMatches(r, m, es, i) == MatchesSel(Members(r)[m], es[i]) /\ (m = 1 => PreOK(r.pre, Len(r.pre), es, i))
RECURSIVE PreSpec(_, _)
PreSpec(pre, k) == IF k = 0 THEN 0 ELSE SpecSel(pre[k]) + PreSpec(pre, k - 1)
MemberSpec(r, m) == SpecSel(Members(r)[m]) + (IF m = 1 THEN PreSpec(r.pre, Len(r.pre)) ELSE 0)
Matches(r, es, i) == \E m \in 1..Len(Members(r)) : MemberMatches(r, m, es, i)
SpecFor(r, es, i) == SetMax({MemberSpec(r, m) : m \in {x \in 1..Len(Members(r)) : MemberMatches(r, x, es, i)}})
HasId(r) == (\E m \in 1..Len(Members(r)) : Members(r)[m].id # "") \/ (\E m \in 1..Len(r.pre) : r.pre[m].id # "")
NoId(r) == [r EXCEPT !.id = "", !.alt = [m \in 1..Len(r.alt) |-> [r.alt[m] EXCEPT !.id = ""]], !.pre = [m \in 1..Len(r.pre) |-> [r.pre[m] EXCEPT !.id = ""]]]
\* rules that match e and declare p; the winner has the highest (specificity, position)
Cands(rules, es, i, p) == {k \in 1..Len(rules) : Matches(rules[k], es, i) /\ LastDecl(rules[k].d, p, Len(rules[k].d)) # ""}
CssVal(rules, es, i, p) == LET c == Cands(rules, es, i, p) IN
                       IF c = {} THEN ""
                       ELSE LET k == CHOOSE k \in c : \A j \in c : SpecFor(rules[j], es, i) * 100 + j <= SpecFor(rules[k], es, i) * 100 + k
                            IN LastDecl(rules[k].d, p, Len(rules[k].d))
Declared(rules, es, i, p) == IF StyleVal(es[i], p) # "" THEN StyleVal(es[i], p)
                             ELSE IF CssVal(rules, es, i, p) # "" THEN CssVal(rules, es, i, p) ELSE AttrVal(es[i], p)
RECURSIVE Computed(_, _, _, _)
Computed(rules, es, i, p) == LET d == Declared(rules, es, i, p) IN
                             IF d # "" THEN d ELSE IF ParentOf(es, i) = 0 THEN Initial(p) ELSE Computed(rules, es, ParentOf(es, i), p)

\* ---- 2b. transforms (SVG 7.6: a list "A B C" is the product A.B.C; the CTM of an element is parent CTM . own list) ----
OpMat(o) == CASE o.f = "translate" -> MTr(o.a[1], IF Len(o.a) > 1 THEN o.a[2] ELSE 0)
              [] o.f = "scale"     -> MSc(o.a[1], IF Len(o.a) > 1 THEN o.a[2] ELSE o.a[1])
              [] o.f = "rotate"    -> IF Len(o.a) = 1 THEN MRot90((((o.a[1] \div 90) % 4) + 4) % 4)
                                      ELSE MAbout(MRot90((((o.a[1] \div 90) % 4) + 4) % 4), o.a[2], o.a[3])
              [] o.f = "matrix"    -> <<o.a[1], o.a[3], o.a[5], o.a[2], o.a[4], o.a[6]>>
RECURSIVE ListMat(_, _)
ListMat(t, i) == IF i > Len(t) THEN MId ELSE MMul(OpMat(t[i]), ListMat(t, i + 1))
OwnMat(e) == LET ix == {i \in 1..Len(e.attrs) : e.attrs[i].n = "transform"} IN IF ix = {} THEN MId ELSE ListMat(e.attrs[SetMax(ix)].t, 1)
RECURSIVE CTM(_, _)
CTM(es, i) == IF ParentOf(es, i) = 0 THEN OwnMat(es[i]) ELSE MMul(CTM(es, ParentOf(es, i)), OwnMat(es[i]))

\* ---- 2c. size and the user-space -> viewport map (SVG 7.7-7.10; CSS absolute lengths: 96 px = 1 in = 25.4 mm) ---------
\* length of n units in mm as a fraction <<num, den>>; den = 0: not determined by the document
MM(unit, n) == CASE unit = "mm" -> <<n, 1>> [] unit \in {"px", ""} -> <<127 * n, 480>> [] unit = "cm" -> <<10 * n, 1>>
                 [] unit = "in" -> <<127 * n, 5>> [] unit = "pt" -> <<127 * n, 360>> [] unit = "pc" -> <<127 * n, 30>> [] unit = "absent" -> <<0, 0>>
\* px per unit as a fraction
PX(unit) == CASE unit = "mm" -> <<480, 127>> [] unit \in {"px", ""} -> <<1, 1>> [] unit = "cm" -> <<4800, 127>>
              [] unit = "in" -> <<96, 1>> [] unit = "pt" -> <<4, 3>> [] unit = "pc" -> <<16, 1>>
\* viewport fractions of a user-space point u: fx = (kx * ux + ox) / dx, fy = (ky * uy + oy) / dy   (fy measured downwards)
\* the viewport in a common integer unit. A side that is a percentage or absent while the other is explicit takes its size from the
\* viewBox (user units = px): the convention of ParseSVG (parseViewBox: "width = viewbox[2] * 25.4 / 96" for an absent or percentage
\* size); SVG leaves such a side to the embedding context, which a stand-alone document does not have.
Explicit(mode) == mode = "x"
ViewW(d) == IF Explicit(d.wmode) /\ Explicit(d.hmode) THEN d.w ELSE IF Explicit(d.wmode) THEN d.w * PX(d.unit)[1] ELSE d.vb[3] * PX(d.unit)[2]
ViewH(d) == IF Explicit(d.wmode) /\ Explicit(d.hmode) THEN d.h ELSE IF Explicit(d.hmode) THEN d.h * PX(d.unit)[1] ELSE d.vb[4] * PX(d.unit)[2]
VMap(d) ==
    IF d.hasvb THEN
        LET minx == d.vb[1] miny == d.vb[2] vbw == d.vb[3] vbh == d.vb[4]
            vw == ViewW(d) vh == ViewH(d)
            P == vw * vbh  Q == vh * vbw IN
        IF d.unit = "absent" \/ P = Q THEN [kx |-> 1, ox |-> -minx, dx |-> vbw, ky |-> 1, oy |-> -miny, dy |-> vbh]
        ELSE IF P < Q THEN [kx |-> 1, ox |-> -minx, dx |-> vbw, ky |-> 2 * vw, oy |-> (Q - P) - 2 * vw * miny, dy |-> 2 * Q]
        ELSE [kx |-> 2 * vh, ox |-> (P - Q) - 2 * vh * minx, dx |-> 2 * P, ky |-> 1, oy |-> -miny, dy |-> vbh]
    ELSE LET px == PX(d.unit) IN [kx |-> px[2], ox |-> 0, dx |-> d.w * px[1], ky |-> px[2], oy |-> 0, dy |-> d.h * px[1]]
\* sample (scaled by S, in the element's user space) -> viewport fractions, through the element's CTM
SMap(d, m) == LET v == VMap(d) IN
    [a |-> <<v.kx * m[1], v.kx * m[2], v.kx * S * m[3] + v.ox * S, v.ky * m[4], v.ky * m[5], v.ky * S * m[6] + v.oy * S>>, dx |-> v.dx * S, dy |-> v.dy * S]

\* ------------------------------------------------------------------------------------------------------
\* 2d. geometry: the outline of an element in its own user space, scaled by S
\* ------------------------------------------------------------------------------------------------------
P2(x, y) == <<x, y>>
Add(p, q) == <<p[1] + q[1], p[2] + q[2]>>
Refl(c, p) == <<2 * c[1] - p[1], 2 * c[2] - p[2]>>          \* reflection of p about c
Sc(p) == <<S * p[1], S * p[2]>>
\* a piece of a sub-path from the current point: k = "L" line | "B" Bezier with control polygon h | "A" circular arc (centre c, radius r, big)
Piece(k, h, c, r, big) == [k |-> k, h |-> h, c |-> c, r |-> r, big |-> big]
LineP == Piece("L", <<>>, <<0, 0>>, 0, FALSE)
Sub(v, closed, pc) == [v |-> v, closed |-> closed, pc |-> pc]
\* SVG F.6: for an arc from p to q of radius r with |dx| = |dy| = r the two candidate centres are p+(dx,0) and p+(0,dy); with the
\* sweep flag meaning "positive angle direction" (from +x towards +y) the centre lies to the left of the chord iff large-arc # sweep
ArcCentre(p, q, fa, fs) == LET c1 == <<q[1], p[2]>> c2 == <<p[1], q[2]>> want == IF fa # fs THEN 1 ELSE -1
                           IN IF Sgn(Cross(p, q, c1)) = want THEN c1 ELSE c2

PState(cur, start, ctl, lastk, subs, v, pc) == [cur |-> cur, start |-> start, ctl |-> ctl, lastk |-> lastk, subs |-> subs, v |-> v, pc |-> pc]
Flush(st, closed) == IF Len(st.v) >= 2 THEN [st EXCEPT !.subs = Append(@, Sub(st.v, closed, st.pc))] ELSE st
AddSeg(st, p, piece, ctl, lastk) == [st EXCEPT !.cur = p, !.v = Append(@, p), !.pc = Append(@, piece), !.ctl = ctl, !.lastk = lastk]
RECURSIVE Interp(_, _, _)
Interp(segs, i, st) ==
    IF i > Len(segs) THEN Flush(st, FALSE).subs
    ELSE LET c == segs[i].c  a == segs[i].a  cur == st.cur
             base == IF c \in {"m", "l", "h", "v", "q", "c", "a", "t", "s"} THEN cur ELSE <<0, 0>>
             pt(k) == <<base[1] + a[k], base[2] + a[k + 1]>> IN
         CASE c \in {"M", "m"} -> LET p == pt(1) IN Interp(segs, i + 1, [Flush(st, FALSE) EXCEPT !.cur = p, !.start = p, !.v = <<p>>, !.pc = <<>>, !.lastk = ""])
           [] c \in {"Z", "z"} -> Interp(segs, i + 1, [Flush(st, TRUE) EXCEPT !.cur = st.start, !.v = <<st.start>>, !.pc = <<>>, !.lastk = ""])
           [] c \in {"L", "l"} -> Interp(segs, i + 1, AddSeg(st, pt(1), LineP, cur, ""))
           [] c = "H" -> Interp(segs, i + 1, AddSeg(st, <<a[1], cur[2]>>, LineP, cur, ""))
           [] c = "h" -> Interp(segs, i + 1, AddSeg(st, <<cur[1] + a[1], cur[2]>>, LineP, cur, ""))
           [] c = "V" -> Interp(segs, i + 1, AddSeg(st, <<cur[1], a[1]>>, LineP, cur, ""))
           [] c = "v" -> Interp(segs, i + 1, AddSeg(st, <<cur[1], cur[2] + a[1]>>, LineP, cur, ""))
           [] c \in {"Q", "q"} -> Interp(segs, i + 1, AddSeg(st, pt(3), Piece("B", <<cur, pt(1), pt(3)>>, <<0, 0>>, 0, FALSE), pt(1), "Q"))
           [] c \in {"T", "t"} -> LET c1 == IF st.lastk = "Q" THEN Refl(cur, st.ctl) ELSE cur IN
                                  Interp(segs, i + 1, AddSeg(st, pt(1), Piece("B", <<cur, c1, pt(1)>>, <<0, 0>>, 0, FALSE), c1, "Q"))
           [] c \in {"C", "c"} -> Interp(segs, i + 1, AddSeg(st, pt(5), Piece("B", <<cur, pt(1), pt(3), pt(5)>>, <<0, 0>>, 0, FALSE), pt(3), "C"))
           [] c \in {"S", "s"} -> LET c1 == IF st.lastk = "C" THEN Refl(cur, st.ctl) ELSE cur IN
                                  Interp(segs, i + 1, AddSeg(st, pt(3), Piece("B", <<cur, c1, pt(1), pt(3)>>, <<0, 0>>, 0, FALSE), pt(1), "C"))
           [] c \in {"A", "a"} -> LET q == pt(6) IN
                                  Interp(segs, i + 1, AddSeg(st, q, Piece("A", <<>>, ArcCentre(cur, q, a[4], a[5]), a[1], a[4] = 1), cur, ""))
PathSubs(segs) == Interp(segs, 1, PState(<<0, 0>>, <<0, 0>>, <<0, 0>>, "", <<>>, <<>>, <<>>))

LinesOnly(n) == [i \in 1..n |-> LineP]
ElemSubs(e) ==
    CASE e.kind = "rect" -> LET x == e.geo[1] y == e.geo[2] w == e.geo[3] h == e.geo[4] IN
                            << Sub(<<P2(x, y), P2(x + w, y), P2(x + w, y + h), P2(x, y + h)>>, TRUE, LinesOnly(3)) >>
      [] e.kind = "line" -> << Sub(<<P2(e.geo[1], e.geo[2]), P2(e.geo[3], e.geo[4])>>, FALSE, LinesOnly(1)) >>
      [] e.kind = "polyline" -> << Sub(e.pts, FALSE, LinesOnly(Len(e.pts) - 1)) >>
      [] e.kind = "polygon"  -> << Sub(e.pts, TRUE, LinesOnly(Len(e.pts) - 1)) >>
      [] e.kind = "path" -> PathSubs(e.segs)
      [] OTHER -> <<>>

\* flattened, scaled lists derived from the sub-paths
Seg(k, a, b, h, c, r, big) == [k |-> k, a |-> a, b |-> b, h |-> h, c |-> c, r |-> r, big |-> big]
SubSegs(sub) == LET n == Len(sub.v) IN
    [i \in 1..(IF sub.closed THEN n ELSE n - 1) |->
        IF i < n THEN LET p == sub.pc[i] IN Seg(p.k, Sc(sub.v[i]), Sc(sub.v[i + 1]), [j \in 1..Len(p.h) |-> Sc(p.h[j])], Sc(p.c), S * p.r, p.big)
        ELSE Seg("L", Sc(sub.v[n]), Sc(sub.v[1]), <<>>, <<0, 0>>, 0, FALSE)]
Joint(a, v, b, exact) == [a |-> a, v |-> v, b |-> b, exact |-> exact]
SubJoints(sub) == LET sg == SubSegs(sub) n == Len(sub.v) m == Len(sg)
                      ix == IF sub.closed THEN 1..n ELSE 2..(n - 1)
                      mk(i) == LET sin == sg[IF i = 1 THEN m ELSE i - 1] sout == sg[i] IN
                               Joint(sin.a, Sc(sub.v[i]), sout.b, sin.k = "L" /\ sout.k = "L" /\ sin.a # sin.b /\ sout.a # sout.b)
                  IN [i \in 1..(IF sub.closed THEN n ELSE IF n >= 2 THEN n - 2 ELSE 0) |-> IF sub.closed THEN mk(i) ELSE mk(i + 1)]
End(p, nb, exact) == [p |-> p, nb |-> nb, exact |-> exact]
SubEnds(sub) == IF sub.closed THEN <<>>
                ELSE LET sg == SubSegs(sub) m == Len(sg) IN
                     << End(sg[1].a, sg[1].b, sg[1].k = "L" /\ sg[1].a # sg[1].b), End(sg[m].b, sg[m].a, sg[m].k = "L" /\ sg[m].a # sg[m].b) >>
RECURSIVE Flat(_, _)
Flat(ss, i) == IF i > Len(ss) THEN <<>> ELSE ss[i] \o Flat(ss, i + 1)
\* normal form of an element outline
NF(e) ==
    CASE e.kind = "circle" /\ e.geo[4] > 0 -> LET lo == PctLo(e.geo[4]) hi == PctHi(e.geo[4]) IN       \* radius known between lo and hi
                               [kind |-> "circle", c |-> Sc(P2(e.geo[1], e.geo[2])), ra |-> lo, rb |-> lo, lo |-> lo, hi |-> hi,
                                box |-> <<S * e.geo[1] - hi, S * e.geo[2] - hi, S * e.geo[1] + hi, S * e.geo[2] + hi>>]
      [] e.kind = "circle"  -> [kind |-> "circle", c |-> Sc(P2(e.geo[1], e.geo[2])), ra |-> S * e.geo[3], rb |-> S * e.geo[3], lo |-> S * e.geo[3], hi |-> S * e.geo[3],
                                box |-> <<S * (e.geo[1] - e.geo[3]), S * (e.geo[2] - e.geo[3]), S * (e.geo[1] + e.geo[3]), S * (e.geo[2] + e.geo[3])>>]
      [] e.kind = "ellipse" -> [kind |-> IF e.geo[3] = e.geo[4] THEN "circle" ELSE "ellipse", c |-> Sc(P2(e.geo[1], e.geo[2])), ra |-> S * e.geo[3], rb |-> S * e.geo[4], lo |-> S * e.geo[3], hi |-> S * e.geo[3],
                                box |-> <<S * (e.geo[1] - e.geo[3]), S * (e.geo[2] - e.geo[4]), S * (e.geo[1] + e.geo[3]), S * (e.geo[2] + e.geo[4])>>]
      [] e.kind = "rect" /\ e.geo[5] > 0 ->
                               [kind |-> "rrect", c |-> <<0, 0>>, ra |-> S * e.geo[5], rb |-> S * e.geo[5],
                                box |-> <<S * e.geo[1], S * e.geo[2], S * (e.geo[1] + e.geo[3]), S * (e.geo[2] + e.geo[4])>>]
      [] OTHER -> LET subs == ElemSubs(e)
                      segs == Flat([k \in 1..Len(subs) |-> SubSegs(subs[k])], 1)
                      allp == {segs[i].a : i \in 1..Len(segs)} \cup {segs[i].b : i \in 1..Len(segs)}
                              \cup UNION {{segs[i].h[j] : j \in 1..Len(segs[i].h)} : i \in 1..Len(segs)}
                              \cup UNION {IF segs[i].k = "A" THEN {<<segs[i].c[1] - segs[i].r, segs[i].c[2] - segs[i].r>>, <<segs[i].c[1] + segs[i].r, segs[i].c[2] + segs[i].r>>} ELSE {} : i \in 1..Len(segs)}
                  IN [kind |-> "poly", segs |-> segs,
                      contours |-> [k \in 1..Len(subs) |-> [j \in 1..Len(subs[k].v) |-> Sc(subs[k].v[j])]],
                      joints |-> Flat([k \in 1..Len(subs) |-> SubJoints(subs[k])], 1),
                      ends |-> Flat([k \in 1..Len(subs) |-> SubEnds(subs[k])], 1),
                      box |-> IF allp = {} THEN <<0, 0, 0, 0>>
                              ELSE <<SetMin({p[1] : p \in allp}), SetMin({p[2] : p \in allp}), SetMax({p[1] : p \in allp}), SetMax({p[2] : p \in allp})>>]

\* ------------------------------------------------------------------------------------------------------
\* 2e. three-valued classification of a sample s (scaled user space of the element): 0 out, 1 in, 2 free
\* ------------------------------------------------------------------------------------------------------
Sq(x) == x * x
COUT == 0
CIN == 1
CFREE == 2
InTri(s, p, q, r) == LET a == Cross(p, q, s) b == Cross(q, r, s) c == Cross(r, p, s) IN (a >= 0 /\ b >= 0 /\ c >= 0) \/ (a <= 0 /\ b <= 0 /\ c <= 0)
\* s in the convex hull of the control polygon h (3 or 4 points)
InHull(s, h) == IF Len(h) = 3 THEN InTri(s, h[1], h[2], h[3])
                ELSE InTri(s, h[1], h[2], h[3]) \/ InTri(s, h[1], h[2], h[4]) \/ InTri(s, h[1], h[3], h[4]) \/ InTri(s, h[2], h[3], h[4])
FarFromHull(s, h, r2) == ~InHull(s, h) /\ \A i, j \in 1..Len(h) : i < j => DistSegGt(h[i], h[j], s, r2)
\* winding contribution of the loop "arc a -> b, chord b -> a" around s (s not on the chord, not in the Tol band of the circle)
ArcCorr(sg, s) == LET sc == Sgn(Cross(sg.a, sg.b, sg.c)) ss == Sgn(Cross(sg.a, sg.b, s)) IN
                  IF Len2(sg.c, s) < Sq(sg.r) /\ ((~sg.big /\ ss = -sc) \/ (sg.big /\ ss = sc)) THEN (IF sg.big THEN -sc ELSE sc) ELSE 0
RECURSIVE SumArc(_, _, _)
SumArc(segs, s, i) == IF i = 0 THEN 0 ELSE (IF segs[i].k = "A" THEN ArcCorr(segs[i], s) ELSE 0) + SumArc(segs, s, i - 1)
PolyWind(n, s) == Wind(n.contours, s) + SumArc(n.segs, s, Len(n.segs))
PolyFree(n, s) == \/ \E i \in 1..Len(n.segs) : n.segs[i].k = "B" /\ InHull(s, n.segs[i].h)
                  \/ \E i \in 1..Len(n.segs) : n.segs[i].k = "A" /\ Len2(n.segs[i].c, s) >= Sq(n.segs[i].r - Tol) /\ Len2(n.segs[i].c, s) <= Sq(n.segs[i].r + Tol)
                  \/ OnPath(n.contours, s)
\* value of the ellipse form b^2 x^2 + a^2 y^2 against a^2 b^2: -1 inside, 0 on, 1 outside E(a, b) centred at c
EllSide(c, a, b, s) == Sgn(Sq(b) * Sq(s[1] - c[1]) + Sq(a) * Sq(s[2] - c[2]) - Sq(a) * Sq(b))
MinR(n) == MinI(n.ra, n.rb)
MaxR(n) == MaxI(n.ra, n.rb)
\* corner zone of a rounded rectangle: the centre of the corner circle whose quadrant contains s, or <<>> if s is in none
Corner(n, s) == LET x0 == n.box[1] y0 == n.box[2] x1 == n.box[3] y1 == n.box[4] r == n.ra
                    cx == IF s[1] < x0 + r THEN x0 + r ELSE IF s[1] > x1 - r THEN x1 - r ELSE 0
                    cy == IF s[2] < y0 + r THEN y0 + r ELSE IF s[2] > y1 - r THEN y1 - r ELSE 0
                    inx == s[1] < x0 + r \/ s[1] > x1 - r  iny == s[2] < y0 + r \/ s[2] > y1 - r
                IN IF inx /\ iny THEN <<cx, cy>> ELSE <<>>
InBox(s, b, m) == s[1] > b[1] + m /\ s[1] < b[3] - m /\ s[2] > b[2] + m /\ s[2] < b[4] - m     \* inside the box shrunk by m (m < 0 grows it)

FillClass(n, s, rule) ==
    CASE n.kind = "poly" -> IF PolyFree(n, s) THEN CFREE ELSE IF Fills(rule, PolyWind(n, s)) THEN CIN ELSE COUT
      [] n.kind = "circle" -> IF n.lo > Tol /\ Len2(n.c, s) < Sq(n.lo - Tol) THEN CIN ELSE IF Len2(n.c, s) > Sq(n.hi + Tol) THEN COUT ELSE CFREE
      [] n.kind = "ellipse" -> IF EllSide(n.c, n.ra - Tol, n.rb - Tol, s) < 0 THEN CIN ELSE IF EllSide(n.c, n.ra + Tol, n.rb + Tol, s) > 0 THEN COUT ELSE CFREE
      [] n.kind = "rrect" -> LET cc == Corner(n, s) IN
            IF cc = <<>> THEN (IF InBox(s, n.box, Tol) THEN CIN ELSE IF ~InBox(s, n.box, -Tol) THEN COUT ELSE CFREE)
            ELSE IF ~InBox(s, n.box, -Tol) THEN COUT
            ELSE IF Len2(cc, s) < Sq(n.ra - Tol) /\ InBox(s, n.box, Tol) THEN CIN ELSE IF Len2(cc, s) > Sq(n.ra + Tol) THEN COUT ELSE CFREE

\* ---- stroke (SVG 11.4: the stroke is the set of points within half the width of the path, completed by joins and caps) ----
InSlab(a, b, s, r) == LET t == DotP(a, b, s) l == Len2(a, b) IN 0 < t /\ t < l /\ Sq(Cross(a, b, s)) < Sq(r) * l
\* miter length / stroke width = 1 / sin(theta/2) against the limit L, for the corner a - v - b (unscaled vectors; L >= 2):
\* 1/sin^2(theta/2) <= L^2  <=>  L^2 d <= (L^2 - 2) |p||q|  with d = p.q
MiterCmp(j, L) == LET p == <<(j.a[1] - j.v[1]) \div S, (j.a[2] - j.v[2]) \div S>>  q == <<(j.b[1] - j.v[1]) \div S, (j.b[2] - j.v[2]) \div S>>
                      d == p[1] * q[1] + p[2] * q[2]  pp == (Sq(p[1]) + Sq(p[2])) * (Sq(q[1]) + Sq(q[2]))
                  IN IF d <= 0 THEN 1 ELSE Sgn(Sq(L * L - 2) * pp - Sq(L * L) * Sq(d))      \* 1: mitered, -1: bevelled, 0: exactly at the limit
\* s in the miter quadrilateral of the corner, bounded by the two outer offset lines at distance h (nonstrict = closed wedge)
KiteIn(j, s, h, strict) == LET turn == Sgn(Cross(j.a, j.v, j.b))
                               t1 == DotP(j.a, j.v, s) - Len2(j.a, j.v)  t2 == DotP(j.v, j.b, s)
                               c1 == turn * Cross(j.a, j.v, s)  c2 == turn * Cross(j.v, j.b, s) IN
                           /\ turn # 0
                           /\ IF strict THEN t1 > 0 /\ t2 < 0 ELSE t1 >= 0 /\ t2 <= 0
                           /\ (c1 >= 0 \/ Sq(c1) < Sq(h) * Len2(j.a, j.v))
                           /\ (c2 >= 0 \/ Sq(c2) < Sq(h) * Len2(j.v, j.b))
\* st = [hw, join, lim, cap]
PolyStrokeIn(n, st, s) ==
    \/ \E i \in 1..Len(n.segs) : n.segs[i].k = "L" /\ InSlab(n.segs[i].a, n.segs[i].b, s, st.hw - Tol)
    \/ \E i \in 1..Len(n.joints) : LET j == n.joints[i] IN j.exact /\
          \/ (st.join = "round" /\ Len2(j.v, s) < Sq(st.hw - Tol) /\ DotP(j.a, j.v, s) >= Len2(j.a, j.v) /\ DotP(j.v, j.b, s) <= 0)
          \/ (st.join = "miter" /\ MiterCmp(j, st.lim) = 1 /\ KiteIn(j, s, st.hw - Tol, TRUE))
    \/ \E i \in 1..Len(n.ends) : LET e == n.ends[i] IN e.exact /\
          \/ (st.cap = "round" /\ Len2(e.p, s) < Sq(st.hw - Tol) /\ DotP(e.nb, e.p, s) >= Len2(e.nb, e.p))
          \/ (st.cap = "square" /\ LET l == Len2(e.nb, e.p) t == DotP(e.nb, e.p, s) - l IN
                                   0 <= t /\ Sq(t) < Sq(st.hw - Tol) * l /\ Sq(Cross(e.nb, e.p, s)) < Sq(st.hw - Tol) * l)
PolyStrokeOut(n, st, s) ==
    LET r2 == Sq(st.hw + Tol) IN
    /\ \A i \in 1..Len(n.segs) : LET sg == n.segs[i] IN
          CASE sg.k = "L" -> DistSegGt(sg.a, sg.b, s, r2)
            [] sg.k = "B" -> FarFromHull(s, sg.h, r2)
            [] sg.k = "A" -> Len2(sg.c, s) > Sq(sg.r + st.hw + Tol) \/ (sg.r > st.hw + Tol /\ Len2(sg.c, s) < Sq(sg.r - st.hw - Tol))
    /\ \A i \in 1..Len(n.joints) : LET j == n.joints[i] IN
          st.join = "miter" => IF j.exact THEN MiterCmp(j, st.lim) = -1 \/ ~KiteIn(j, s, st.hw + Tol, FALSE)
                               ELSE Len2(j.v, s) > Sq(st.lim * st.hw + Tol)
    /\ \A i \in 1..Len(n.ends) : st.cap = "square" => Len2(n.ends[i].p, s) > 2 * r2
StrokeClass(n, st, s) ==
    LET h == st.hw IN
    CASE n.kind = "poly" -> IF PolyStrokeIn(n, st, s) THEN CIN ELSE IF PolyStrokeOut(n, st, s) THEN COUT ELSE CFREE
      [] n.kind = "circle" -> LET d == Len2(n.c, s) IN
            IF d < Sq(n.lo + h - Tol) /\ (n.hi <= h - Tol \/ d > Sq(n.hi - h + Tol)) THEN CIN
            ELSE IF d > Sq(n.hi + h + Tol) \/ (n.lo > h + Tol /\ d < Sq(n.lo - h - Tol)) THEN COUT ELSE CFREE
      [] n.kind = "ellipse" -> LET d == h - Tol IN
            IF EllSide(n.c, n.ra + d, n.rb + d, s) < 0 /\ (MinR(n) <= d \/ EllSide(n.c, n.ra - d, n.rb - d, s) > 0) THEN CIN
            ELSE IF Len2(n.c, s) > Sq(MaxR(n) + h + Tol) \/ (MinR(n) > h + Tol /\ Len2(n.c, s) < Sq(MinR(n) - h - Tol)) THEN COUT ELSE CFREE
      [] n.kind = "rrect" -> LET cc == Corner(n, s) b == n.box r == n.ra d == Len2(cc, s) IN
            IF cc = <<>> THEN
                 (IF \/ (s[1] > b[1] + r /\ s[1] < b[3] - r /\ (Abs(s[2] - b[2]) < h - Tol \/ Abs(s[2] - b[4]) < h - Tol))
                     \/ (s[2] > b[2] + r /\ s[2] < b[4] - r /\ (Abs(s[1] - b[1]) < h - Tol \/ Abs(s[1] - b[3]) < h - Tol)) THEN CIN
                  ELSE IF ~InBox(s, b, -(h + Tol)) \/ InBox(s, b, h + Tol) THEN COUT ELSE CFREE)
            ELSE IF d < Sq(r + h - Tol) /\ (r <= h - Tol \/ d > Sq(r - h + Tol)) THEN CIN
            ELSE IF d > Sq(r + h + Tol) \/ (r > h + Tol /\ d < Sq(r - h - Tol)) THEN COUT ELSE CFREE

\* ------------------------------------------------------------------------------------------------------
\* 3. expected paint events
\* ------------------------------------------------------------------------------------------------------
Grid(box, m) == LET gx == 2 * ((box[1] - m) \div 2) + 1  gy == 2 * ((box[2] - m) \div 2) + 1
                IN [gx |-> gx, gy |-> gy, nx |-> (box[3] + m - gx) \div Step + 1, ny |-> (box[4] + m - gy) \div Step + 1]
GridPt(gr, k) == << gr.gx + Step * ((k - 1) % gr.nx), gr.gy + Step * ((k - 1) \div gr.nx) >>
TooBig(n) == n.box[3] - n.box[1] > 96 \/ n.box[4] - n.box[2] > 96        \* keeps every degree-4 term below 2^31
StrokeStyle(w, join, lim, cap) == [hw |-> (S * w) \div 2, join |-> join, lim |-> lim, cap |-> cap]
Margin(st) == st.hw + Tol + 4 + (IF st.join = "miter" THEN MinI(2 * st.hw, 16) ELSE 0)
Event(el, kind, col, map, gr, cells, haz, info, cd) ==
    [el |-> el, kind |-> kind, rgba |-> RGBA(col), col |-> col, map |-> map, gx |-> gr.gx, gy |-> gr.gy, nx |-> gr.nx, ny |-> gr.ny, step |-> Step,
     cells |-> cells, opt |-> \A k \in 1..Len(cells) : cells[k] # CIN, haz |-> haz, info |-> info, cd |-> cd]
FillEvent(el, n, col, rule, map, haz, cd) ==
    LET gr == Grid(n.box, 5) IN
    Event(el, "fill", col, map, gr, [k \in 1..(gr.nx * gr.ny) |-> IF TooBig(n) THEN CFREE ELSE FillClass(n, GridPt(gr, k), rule)], haz, [rule |-> rule], cd)
StrokeEvent(el, n, col, st, map, haz, cd) ==
    LET gr == Grid(n.box, Margin(st)) IN
    Event(el, "stroke", col, map, gr, [k \in 1..(gr.nx * gr.ny) |-> IF TooBig(n) THEN CFREE ELSE StrokeClass(n, st, GridPt(gr, k))], haz, [hw |-> st.hw, join |-> st.join, lim |-> st.lim, cap |-> st.cap], cd)

\* ---- scenario features: where the cascade of an element is sensitive to the order in which sources are applied ----------------
HazAt(rules, es, i, p) ==
    LET e == es[i] c == Cands(rules, es, i, p) IN
    (IF c # {} /\ AttrVal(e, p) # "" THEN {"css-vs-attr:" \o p} ELSE {})
    \cup (IF \E x, y \in 1..Len(e.attrs) : x < y /\ e.attrs[x].n = "style" /\ LastDecl(e.attrs[x].d, p, Len(e.attrs[x].d)) # "" /\ e.attrs[y].n = p
          THEN {"style-before-attr:" \o p} ELSE {})
    \cup (IF \E x, y \in c : x < y /\ SpecFor(rules[x], es, i) > SpecFor(rules[y], es, i) THEN {"specificity:" \o p} ELSE {})
    \cup (IF \E k \in 1..Len(rules) : /\ LastDecl(rules[k].d, p, Len(rules[k].d)) # "" /\ ~Matches(rules[k], es, i)
                                      /\ \E a \in Chain(es, i) \ {i} : Matches(rules[k], es, a)
          THEN {"ancestor-rule:" \o p} ELSE {})
    \cup (IF \E k \in 1..Len(rules) : /\ HasId(rules[k]) /\ LastDecl(rules[k].d, p, Len(rules[k].d)) # "" /\ ~Matches(rules[k], es, i)
                                      /\ \E a \in Chain(es, i) : Matches(NoId(rules[k]), es, a)
          THEN {"id-selector:" \o p} ELSE {})
    \cup (IF p = "stroke-miterlimit" /\ Declared(rules, es, i, p) # "" THEN {"miterlimit-declared"} ELSE {})
Haz(rules, es, i, ps) == UNION {HazAt(rules, es, j, p) : j \in Chain(es, i), p \in ps}
\* every value some source declares for p on the element, an ancestor or in any rule, and the initial value
CandVals(rules, es, i, p) == ({Initial(p)} \cup {AttrVal(es[j], p) : j \in Chain(es, i)} \cup {StyleVal(es[j], p) : j \in Chain(es, i)}
                              \cup {LastDecl(rules[k].d, p, Len(rules[k].d)) : k \in 1..Len(rules)}) \ {""}
StrokeProps == {"stroke", "stroke-width", "stroke-linejoin", "stroke-miterlimit", "stroke-linecap"}
DocFeat(d) == (IF d.hasvb /\ (d.vb[1] # 0 \/ d.vb[2] # 0) THEN {"vb-origin"} ELSE {})
              \cup (IF d.hasvb /\ d.unit # "absent" /\ ViewW(d) * d.vb[4] # ViewH(d) * d.vb[3] THEN {"aspect"} ELSE {})
              \cup (IF Explicit(d.wmode) # Explicit(d.hmode) THEN {"size-mixed"} ELSE {})
              \cup (IF ~d.hasvb THEN {"no-viewbox"} ELSE {}) \cup {"unit:" \o d.unit}

\* geometric features of an outline: two consecutive line segments that fold back onto each other (canvas' path builder merges those: C10)
GeoFeat(n) == IF n.kind = "poly" /\ \E i \in 1..Len(n.joints) : LET j == n.joints[i] IN j.exact /\ Cross(j.a, j.v, j.b) = 0 /\ DotP(j.v, j.a, j.b) > 0
              THEN {"line-reversal"} ELSE {}
\* a percentage radius in a document whose viewBox size differs from the viewport size in px (the two references a reader may confuse)
PctFeat(d, e) == IF e.kind = "circle" /\ e.geo[4] > 0 /\ d.hasvb /\ ~(d.unit = "absent" \/ (d.unit \in {"px", ""} /\ ViewW(d) = d.vb[3] /\ ViewH(d) = d.vb[4]))
                 THEN {"pct-viewbox"} ELSE {}
FillProps == {"fill", "fill-rule"}
IsShape(e) == e.kind \notin {"svg", "g"}
ElemEvents(d, i) ==
    LET es == d.es  e == es[i]  n == NF(e)  map == SMap(d, CTM(es, i))
        fill == Computed(d.rules, es, i, "fill")  stroke == Computed(d.rules, es, i, "stroke")
        rule == IF Computed(d.rules, es, i, "fill-rule") = "evenodd" THEN 1 ELSE 0
        st == StrokeStyle(Num10(Computed(d.rules, es, i, "stroke-width")), Computed(d.rules, es, i, "stroke-linejoin"),
                          Num10(Computed(d.rules, es, i, "stroke-miterlimit")), Computed(d.rules, es, i, "stroke-linecap"))
    IN (IF fill # "none" THEN <<FillEvent(i, n, fill, rule, map, Haz(d.rules, es, i, FillProps) \cup GeoFeat(n) \cup PctFeat(d, e), [col |-> {RGBA(v) : v \in CandVals(d.rules, es, i, "fill")}])>> ELSE <<>>)
       \o (IF stroke # "none" THEN <<StrokeEvent(i, n, stroke, st, map, Haz(d.rules, es, i, StrokeProps) \cup GeoFeat(n) \cup PctFeat(d, e),
                     [col |-> {RGBA(v) : v \in CandVals(d.rules, es, i, "stroke")}, w |-> {Num10(v) : v \in CandVals(d.rules, es, i, "stroke-width")},
                      join |-> CandVals(d.rules, es, i, "stroke-linejoin"), lim |-> {Num10(v) : v \in CandVals(d.rules, es, i, "stroke-miterlimit")},
                      cap |-> CandVals(d.rules, es, i, "stroke-linecap")])>> ELSE <<>>)
RECURSIVE DocEvents(_, _)
DocEvents(d, i) == IF i > Len(d.es) THEN <<>> ELSE (IF IsShape(d.es[i]) THEN ElemEvents(d, i) ELSE <<>>) \o DocEvents(d, i + 1)
DocSize(d) == LET w == IF Explicit(d.wmode) THEN MM(d.unit, d.w) ELSE MM("px", d.vb[3])
                  h == IF Explicit(d.hmode) THEN MM(d.unit, d.h) ELSE MM("px", d.vb[4]) IN <<w[1], w[2], h[1], h[2]>>
AllHaz(d) == UNION {Haz(d.rules, d.es, i, FillProps \cup StrokeProps) : i \in {j \in 1..Len(d.es) : IsShape(d.es[j])}}
\* every shape element with the order-sensitivity features of all its paint properties and, when it has no fill paint, the cells of
\* its outline (fp): the driver pairs recorded layers with elements by geometry, independently of how they are painted
NoCands == [col |-> {}]
\* the vertices (end points of the segments, scaled by S) of a polygonal / path outline: a second means of recognising its layer
Vertices(n) == IF n.kind = "poly" THEN UNION {{n.contours[k][j] : j \in 1..Len(n.contours[k])} : k \in 1..Len(n.contours)} ELSE {}
ShapeRec(d, i) == LET es == d.es n == NF(es[i]) nofill == Computed(d.rules, es, i, "fill") = "none" \/ Computed(d.rules, es, i, "fill-rule") = "evenodd" IN
    [el |-> i, haz |-> Haz(d.rules, es, i, FillProps \cup StrokeProps) \cup GeoFeat(n) \cup PctFeat(d, es[i]), vs |-> Vertices(n),
     fp |-> IF nofill THEN <<FillEvent(i, n, "black", 0, SMap(d, CTM(es, i)), {}, NoCands)>> ELSE <<>>]
RECURSIVE DocShapes(_, _)
DocShapes(d, i) == IF i > Len(d.es) THEN <<>> ELSE (IF IsShape(d.es[i]) THEN <<ShapeRec(d, i)>> ELSE <<>>) \o DocShapes(d, i + 1)
DocScenario == LET d == Doc IN [mode |-> "gen", doc |-> d, size |-> DocSize(d), events |-> DocEvents(d, 1), shapes |-> DocShapes(d, 1), feat |-> DocFeat(d), haz |-> AllHaz(d)]

\* ------------------------------------------------------------------------------------------------------
\* 4. round trip: a drawing (canvas of W x H mm, styled draws of lattice polygons under integer views), written by the library's
\*    SVG back-end and read back.  The expected paint events follow from the documented meaning of Context.DrawPath: the path and
\*    its stroke (width in path units) are mapped by the view into the y-up millimetre space of the canvas.
\* ------------------------------------------------------------------------------------------------------
RTViews == << MId, MTr(2, 1), MSc(2, 2), <<0,-1,9,1,0,0>>, <<-1,0,9,0,1,1>>, <<0,-2,12,2,0,1>>, MTr(3, 3), <<0,1,1,-1,0,8>>, MSh(1, 0), MSc(2, 1) >>
RTShapes == << << Sub(<<P2(0,0), P2(4,0), P2(4,4), P2(0,4)>>, TRUE, LinesOnly(3)), Sub(<<P2(1,1), P2(3,1), P2(3,3), P2(1,3)>>, TRUE, LinesOnly(3)) >>,    \* winding 2 inside
               << Sub(<<P2(0,0), P2(4,0), P2(4,4), P2(0,4)>>, TRUE, LinesOnly(3)), Sub(<<P2(1,1), P2(1,3), P2(3,3), P2(3,1)>>, TRUE, LinesOnly(3)) >>,    \* hole
               << Sub(<<P2(0,0), P2(4,0), P2(4,1)>>, TRUE, LinesOnly(2)) >>,                                                                         \* sliver, miter ratio 8.2
               << Sub(<<P2(0,0), P2(3,0), P2(3,4)>>, FALSE, LinesOnly(2)) >>,                                                                        \* open hook
               << Sub(<<P2(0,3), P2(4,3), P2(1,0), P2(2,5), P2(3,0)>>, TRUE, LinesOnly(4)) >> >>                                                     \* pentagram-like
IsSimilarity(m) == m[1] * m[1] + m[4] * m[4] = m[2] * m[2] + m[5] * m[5] /\ m[1] * m[2] + m[4] * m[5] = 0
RTCols == <<"red", "blue", "lime", "black", "none", "orange", "gray", "redh", "black">>
\* a curved outline: M v0, one quadratic or cubic Bezier to e, a line to a point that shares exactly one coordinate with the last
\* control point (modes 0, 1) or with the end point (modes 2, 3) - the situations in which a writer abbreviates L to H / V - , closed
RTCurve(o) == LET v0 == <<At(o, 2) % 4, At(o, 3) % 4>>
                  c1 == <<At(o, 4) % 7, At(o, 5) % 7>>  c2 == <<At(o, 11) % 7, At(o, 12) % 7>>
                  e == Distinct2(v0, <<At(o, 6) % 7, At(o, 7) % 7>>)
                  cubic == At(o, 10) % 3 = 0
                  lc == IF cubic THEN c2 ELSE c1
                  t == At(o, 9) % 7  mode == At(o, 8) % 4
                  p0 == CASE mode = 0 -> <<lc[1], t>> [] mode = 1 -> <<t, lc[2]>> [] mode = 2 -> <<e[1], t>> [] mode = 3 -> <<t, e[2]>>
                  p == Distinct2(e, p0)
                  hull == IF cubic THEN <<v0, c1, c2, e>> ELSE <<v0, c1, e>>
              IN << Sub(<<v0, e, p>>, At(o, 13) % 4 # 0, <<Piece("B", hull, <<0, 0>>, 0, FALSE), LineP>>) >>
RTDraw(o) == LET pick == At(o, 1) % 8
                 subs == IF pick <= 4 THEN RTShapes[pick + 1]
                         ELSE IF pick <= 6 THEN RTCurve(o)
                         ELSE LET n == 3 + (At(o, 2) % 3) IN << Sub(GenPts(o, 2, n), At(o, 13) % 4 # 0, LinesOnly(n - 1)) >>
                 view == Pk(o, 16, RTViews)
                 \* (under a view that is not a similarity the SVG writer outlines the stroke with Path.Stroke, whose correctness is C04's subject: fills only)
                 fill0 == Pk(o, 14, RTCols)  stroke == IF IsSimilarity(view) THEN Pk(o, 15, <<"none", "none", "blue", "red", "black", "redh", "lime">>) ELSE "none"
                 fill == IF fill0 = "none" /\ stroke = "none" THEN "black" ELSE fill0
             IN [subs |-> subs, view |-> view, fill |-> fill, stroke |-> stroke, frgba |-> RGBA(fill), srgba |-> RGBA(stroke), w |-> Pk(o, 17, <<1, 1, 2, 3>>),
                 join |-> Pk(o, 18, <<"miter", "miter", "bevel", "round">>), lim |-> Pk(o, 19, <<4, 4, 10, 2>>), cap |-> Pk(o, 20, <<"butt", "butt", "round", "square">>),
                 rule |-> Pk(o, 21, <<0, 0, 1>>)]
Drawing == LET n == Pk(DOCo, 1, <<1, 2, 2, 3>>) IN
           [w |-> 12 + (At(DOCo, 2) % 9), h |-> 12 + (At(DOCo, 3) % 9), draws |-> [k \in 1..n |-> RTDraw(SHPo(k))]]
RTNF(dr) == LET segs == Flat([k \in 1..Len(dr.subs) |-> SubSegs(dr.subs[k])], 1)
                allp == {segs[i].a : i \in 1..Len(segs)} \cup {segs[i].b : i \in 1..Len(segs)}
                        \cup UNION {{segs[i].h[j] : j \in 1..Len(segs[i].h)} : i \in 1..Len(segs)} IN
            [kind |-> "poly", segs |-> segs, contours |-> [k \in 1..Len(dr.subs) |-> [j \in 1..Len(dr.subs[k].v) |-> Sc(dr.subs[k].v[j])]],
             joints |-> Flat([k \in 1..Len(dr.subs) |-> SubJoints(dr.subs[k])], 1), ends |-> Flat([k \in 1..Len(dr.subs) |-> SubEnds(dr.subs[k])], 1),
             box |-> <<SetMin({p[1] : p \in allp}), SetMin({p[2] : p \in allp}), SetMax({p[1] : p \in allp}), SetMax({p[2] : p \in allp})>>]
RTFeat(dr, n) == (IF dr.rule = 1 /\ \E k \in 1..(Grid(n.box, 5).nx * Grid(n.box, 5).ny) :
                         LET s == GridPt(Grid(n.box, 5), k) IN ~OnPath(n.contours, s) /\ Wind(n.contours, s) # 0 /\ Wind(n.contours, s) % 2 = 0
                  THEN {"evenodd-differs"} ELSE {})
                 \cup (IF dr.fill = "redh" \/ dr.stroke = "redh" THEN {"alpha"} ELSE {})
                 \cup (IF ~IsSimilarity(dr.view) THEN {"non-similarity"} ELSE {})
RTEvents(D, k) ==
    LET dr == D.draws[k]  n == RTNF(dr)  m == dr.view
        map == [a |-> <<m[1], m[2], S * m[3], -m[4], -m[5], S * (D.h - m[6])>>, dx |-> S * D.w, dy |-> S * D.h]
        st == StrokeStyle(dr.w, dr.join, dr.lim, dr.cap)  f == RTFeat(dr, n) \cup GeoFeat(n)
    IN (IF dr.fill # "none" THEN <<FillEvent(k, n, dr.fill, dr.rule, map, f, NoCands)>> ELSE <<>>)
       \o (IF dr.stroke # "none" THEN <<StrokeEvent(k, n, dr.stroke, st, map, f, NoCands)>> ELSE <<>>)
RECURSIVE AllRTEvents(_, _)
AllRTEvents(D, k) == IF k > Len(D.draws) THEN <<>> ELSE RTEvents(D, k) \o AllRTEvents(D, k + 1)
RTShape(D, k) == LET dr == D.draws[k] n == RTNF(dr) m == dr.view
                     map == [a |-> <<m[1], m[2], S * m[3], -m[4], -m[5], S * (D.h - m[6])>>, dx |-> S * D.w, dy |-> S * D.h] IN
                 [el |-> k, haz |-> RTFeat(dr, n) \cup GeoFeat(n), vs |-> {}, fp |-> IF dr.fill = "none" \/ dr.rule # 0 THEN <<FillEvent(k, n, "black", 0, map, {}, NoCands)>> ELSE <<>>]
RTScenario == LET D == Drawing ev == AllRTEvents(D, 1) IN
              [mode |-> "rt", drawing |-> D, size |-> <<D.w, 1, D.h, 1>>, events |-> ev, shapes |-> [k \in 1..Len(D.draws) |-> RTShape(D, k)],
               feat |-> UNION {ev[i].haz : i \in 1..Len(ev)}, haz |-> {}]

\* ------------------------------------------------------------------------------------------------------
\* behaviour: choose the genes, emit the scenario
\* ------------------------------------------------------------------------------------------------------
Init == g \in RandomSubset(Num, F10) /\ done = FALSE
Grow == Len(g) < NGenes /\ g' = g \o RandGenes((NGenes \div 10) - 1) /\ UNCHANGED done
Emit == /\ Len(g) = NGenes /\ ~done /\ done' = TRUE /\ UNCHANGED g
        /\ CASE Mode = "gen" -> PrintT("@@" \o ToJson(DocScenario))
             [] Mode = "rt"  -> PrintT("@@" \o ToJson(RTScenario))
             [] OTHER -> TRUE
Next == Grow \/ Emit
Spec == Init /\ [][Next]_vars

\* ------------------------------------------------------------------------------------------------------
\* 5. model-level laws (Mode = "mc"): properties of the semantics itself, checked on every drawn document
\* ------------------------------------------------------------------------------------------------------
Full == Mode = "mc" /\ Len(g) = NGenes
RevAttrs(es) == [i \in 1..Len(es) |-> [es[i] EXCEPT !.attrs = Rev(@)]]
CascadeLaws == Full => LET d == Doc es == d.es rs == d.rules IN
    \A i \in 1..Len(es), k \in 1..Len(Props) :
        LET p == Props[k] e == es[i] v == Computed(rs, es, i, p) c == Cands(rs, es, i, p) IN
        /\ InSeq(v, Vals(p)) \/ v = Initial(p)                                               \* total: always a value of the property
        /\ v = Computed(rs, RevAttrs(es), i, p)                                              \* the order of attributes is irrelevant
        /\ (StyleVal(e, p) # "" => v = StyleVal(e, p))                                       \* the style attribute wins
        /\ (StyleVal(e, p) = "" /\ c # {} =>                                                 \* else a matching rule of maximal specificity
               \E x \in c : v = LastDecl(rs[x].d, p, Len(rs[x].d)) /\ \A y \in c : SpecFor(rs[y], es, i) <= SpecFor(rs[x], es, i))
        /\ (StyleVal(e, p) = "" /\ c = {} /\ AttrVal(e, p) # "" => v = AttrVal(e, p))         \* else the presentation attribute
        /\ (Declared(rs, es, i, p) = "" => v = IF ParentOf(es, i) = 0 THEN Initial(p) ELSE Computed(rs, es, ParentOf(es, i), p))   \* else inherited
        /\ ((\A x, y \in c : x # y => SpecFor(rs[x], es, i) # SpecFor(rs[y], es, i)) => Declared(Rev(rs), es, i, p) = Declared(rs, es, i, p))  \* rule order matters only among equal specificity
Probe == {<<0, 0>>, <<1, 0>>, <<0, 1>>, <<3, -2>>}
TransformLaws == Full => LET es == Doc.es IN
    \A i \in 2..Len(es) : LET own == OwnMat(es[i]) par == IF ParentOf(es, i) = 0 THEN MId ELSE CTM(es, ParentOf(es, i))
                               ix == {x \in 1..Len(es[i].attrs) : es[i].attrs[x].n = "transform"} IN
        /\ MDet(CTM(es, i)) # 0
        /\ \A q \in Probe : MDot(CTM(es, i), q) = MDot(par, MDot(own, q))                    \* the element's own transform is applied first
        /\ \A x \in ix : LET t == es[i].attrs[x].t IN
              /\ (Len(t) = 2 => \A q \in Probe : MDot(own, q) = MDot(OpMat(t[1]), MDot(OpMat(t[2]), q)))      \* "A B": B first
              /\ \A y \in 1..Len(t) : (t[y].f = "rotate" /\ Len(t[y].a) = 3) => MDot(OpMat(t[y]), <<t[y].a[2], t[y].a[3]>>) = <<t[y].a[2], t[y].a[3]>>
SS(w, j, l, c) == StrokeStyle(w, j, l, c)
ShapeLaws == Full => LET es == Doc.es IN
    \A i \in {x \in 1..Len(es) : IsShape(es[x])} : LET e == es[i] n == NF(e) gr == Grid(n.box, 11) IN
        /\ (TooBig(n) => e.kind = "path")
        /\ TooBig(n) \/ \A k \in 1..(gr.nx * gr.ny) : LET s == GridPt(gr, k) f == FillClass(n, s, 0) IN
              /\ (e.kind = "rect" /\ n.kind = "poly" => f = IF InBox(s, n.box, 0) THEN CIN ELSE IF ~InBox(s, n.box, -1) THEN COUT ELSE f)   \* cells of a rect = its box
              /\ (n.kind = "rrect" => (f = CIN => InBox(s, n.box, 0)) /\ (f = COUT => ~(InBox(s, n.box, 0) /\ Corner(n, s) = <<>>)))
              /\ (n.kind \in {"circle", "ellipse"} => (f = CIN => EllSide(n.c, n.ra, n.rb, s) < 0) /\ (f = COUT => EllSide(n.c, n.ra, n.rb, s) > 0))
              /\ ((n.kind = "poly" /\ f # CFREE /\ (\A x \in 1..Len(n.segs) : n.segs[x].k = "L")) => ((f = CIN) = (Wind(n.contours, s) # 0)))    \* polygons: Lattice winding
              /\ \A w \in 1..2 : StrokeClass(n, SS(w, "bevel", 4, "butt"), s) = CIN => StrokeClass(n, SS(w + 1, "bevel", 4, "butt"), s) # COUT       \* wider pen covers more
              /\ (StrokeClass(n, SS(2, "bevel", 4, "butt"), s) = CIN => StrokeClass(n, SS(2, "round", 4, "round"), s) = CIN /\ StrokeClass(n, SS(2, "miter", 4, "square"), s) = CIN)
              /\ (StrokeClass(n, SS(2, "round", 4, "round"), s) = COUT => StrokeClass(n, SS(2, "bevel", 4, "butt"), s) = COUT)
              /\ (StrokeClass(n, SS(2, "miter", 10, "butt"), s) = COUT => StrokeClass(n, SS(2, "miter", 2, "butt"), s) = COUT /\ StrokeClass(n, SS(2, "bevel", 4, "butt"), s) = COUT)
              /\ (StrokeClass(n, SS(2, "miter", 2, "butt"), s) = CIN => StrokeClass(n, SS(2, "miter", 10, "butt"), s) = CIN)
EventLaws == Full => LET d == Doc ev == DocEvents(d, 1) es == d.es IN
    /\ \A x \in 1..Len(ev) : /\ IsShape(es[ev[x].el]) /\ ev[x].col # "none" /\ ev[x].map.dx > 0 /\ ev[x].map.dy > 0 /\ Len(ev[x].cells) = ev[x].nx * ev[x].ny
                              /\ (x > 1 => ev[x - 1].el < ev[x].el \/ (ev[x - 1].el = ev[x].el /\ ev[x - 1].kind = "fill" /\ ev[x].kind = "stroke"))
    /\ \A i \in {x \in 1..Len(es) : IsShape(es[x])} :
          /\ (Computed(d.rules, es, i, "fill") # "none") = (\E x \in 1..Len(ev) : ev[x].el = i /\ ev[x].kind = "fill")
          /\ (Computed(d.rules, es, i, "stroke") # "none") = (\E x \in 1..Len(ev) : ev[x].el = i /\ ev[x].kind = "stroke")
    /\ LET z == DocSize(d) IN (d.unit = "absent") = (z[2] = 0)

\* fixed points of the arc semantics (SVG F.6): quarter disc, concave quarter, three-quarter disc
ArcNF(segs) == NF(Elem("path", 1, <<>>, <<>>, segs, <<>>, <<>>, ""))
QDisc == ArcNF(<<Cmd("M", <<2, 2>>), Cmd("L", <<5, 2>>), Cmd("A", <<3, 3, 0, 0, 1, 2, 5>>), Cmd("Z", <<>>)>>)      \* centre (2,2): the quarter disc
QConc == ArcNF(<<Cmd("M", <<2, 2>>), Cmd("L", <<5, 2>>), Cmd("A", <<3, 3, 0, 0, 0, 2, 5>>), Cmd("Z", <<>>)>>)      \* centre (5,5): triangle minus segment
QBig  == ArcNF(<<Cmd("M", <<5, 2>>), Cmd("A", <<3, 3, 0, 1, 0, 2, 5>>), Cmd("Z", <<>>)>>)                          \* centre (2,2), 270 degrees from (5,2) the other way round
ASSUME /\ FillClass(QDisc, <<29, 29>>, 0) = CIN /\ FillClass(QDisc, <<35, 35>>, 0) = COUT /\ FillClass(QDisc, <<11, 27>>, 0) = COUT
       /\ FillClass(QConc, <<19, 19>>, 0) = CIN /\ FillClass(QConc, <<27, 27>>, 0) = COUT
       /\ FillClass(QBig, <<11, 11>>, 0) = CIN /\ FillClass(QBig, <<5, 11>>, 0) = CIN /\ FillClass(QBig, <<27, 27>>, 0) = CIN /\ FillClass(QBig, <<29, 29>>, 0) = COUT /\ FillClass(QBig, <<19, 21>>, 0) = CIN
       /\ FillClass(QBig, <<45, 45>>, 0) = COUT
=============================================================================
